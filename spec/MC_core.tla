------------------------------- MODULE MC_core -------------------------------
(* Constant definitions for the TLC configurations of MCCore. *)
EXTENDS MCCore
AllModes    == { <<d, r>> : d \in BOOLEAN, r \in BOOLEAN }
RemModes    == { <<d, TRUE>> : d \in BOOLEAN }
UndRem      == { <<FALSE, TRUE>> }
UndBoth     == { <<FALSE, r>> : r \in BOOLEAN }
DirRem      == { <<TRUE, TRUE>> }
NoKF        == {}
PinnedKF    == {"KF1"}
N2          == {1, 2}
N3          == {1, 2, 3}
N4          == {1, 2, 3, 4}
\* simulation: print the history of every behaviour that reaches the depth bound
SimD        == 25
SimPrint    == (TLCGet("level") = SimD) => PrintT(<<"SIM", G.dir, G.rem, hist>>)
\* the action alphabet of the configuration, for the spec -> code replay
ASSUME PrintT(<<"ALPHABET", Calls>>)
==============================================================================
