------------------------------- MODULE MC_core -------------------------------
(* Constant definitions for the TLC configurations of MCCore. *)
EXTENDS MCCore
AllModes    == { <<d, r>> : d \in BOOLEAN, r \in BOOLEAN }
RemModes    == { <<d, TRUE>> : d \in BOOLEAN }
UndRem      == { <<FALSE, TRUE>> }
DirRem      == { <<TRUE, TRUE>> }
NoKF        == {}
PinnedKF    == {"KF1"}
N2          == {1, 2}
N3          == {1, 2, 3}
==============================================================================
