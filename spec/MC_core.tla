------------------------------- MODULE MC_core -------------------------------
(* Constant definitions for the TLC configurations of MCCore. *)
EXTENDS MCCore
AllModes    == { <<d, r>> : d \in BOOLEAN, r \in BOOLEAN }
RemModes    == { <<d, TRUE>> : d \in BOOLEAN }
UndRem      == { <<FALSE, TRUE>> }
UndBoth     == { <<FALSE, r>> : r \in BOOLEAN }
DirRem      == { <<TRUE, TRUE>> }
NoKF        == {}
PinnedKF    == {"KF1"}
N2          == {1, 2}
N3          == {1, 2, 3}
\* the action alphabet of the configuration, for the spec -> code replay
ASSUME PrintT(<<"ALPHABET", Calls>>)
==============================================================================
