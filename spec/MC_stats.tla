------------------------------- MODULE MC_stats -------------------------------
EXTENDS MCStats
AllModes == { <<d, r>> : d \in BOOLEAN, r \in BOOLEAN }
RemModes == { <<d, TRUE>> : d \in BOOLEAN }
PinnedKF == {"KF1"}
UndRemOnly == { <<FALSE, TRUE>> }
NN2 == {1, 2}
NN3 == {1, 2, 3}
===============================================================================
