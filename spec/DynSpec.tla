------------------------------ MODULE DynSpec -------------------------------
(***************************************************************************)
(* Reference (truth level) state of one dynamic graph: what the *history*   *)
(* of accepted calls says, independent of how the library stores it.        *)
(*                                                                          *)
(*   R.dir, R.rem   class (DynDiGraph / DynGraph) and mode (edge_removal)   *)
(*   R.added[p]     union of the spans of all accepted add calls of pair p  *)
(*                  ({t}, or t..e-1; in accumulative mode the vanishing     *)
(*                  time is ignored and the span is {t}); only pairs with a *)
(*                  non-empty union are in the domain                       *)
(*   R.deg          pairs that only ever received empty spans (e <= t);     *)
(*                  the statements give them no presence and leave their    *)
(*                  flattened existence open                                *)
(*   R.nodes        nodes added explicitly or as endpoint of an accepted,   *)
(*                  non-empty call;  R.maybe: endpoints of empty-span calls *)
(*   R.attr         node -> attribute value (abstract integer, 0 = none)    *)
(*   R.frozen       freeze() was applied                                    *)
(***************************************************************************)
EXTENDS Temporal, TLC

NoT == -99998                         \* "t omitted"

Norm(dir, u, v) == IF dir \/ u <= v THEN <<u, v>> ELSE <<v, u>>

EmptyRef(dir, rem) ==
  [dir |-> dir, rem |-> rem, added |-> <<>>, deg |-> {}, nodes |-> {},
   maybe |-> {}, attr |-> <<>>, frozen |-> FALSE]

AddedOf(R, p) == IF p \in DOMAIN R.added THEN R.added[p] ELSE {}
RefPairs(R)   == DOMAIN R.added

\* span covered by a call on this graph
RefSpan(R, t, e) == IF e = NoEnd \/ ~R.rem THEN t .. t ELSE t .. (e - 1)

\* the documented rejection rule: the span starts before the start of the
\* pair's latest run
LatestRunStart(S) == RunStartTo(S, MaxOf(S))
RefRejects(R, p, t) == p \in DOMAIN R.added /\ t < LatestRunStart(R.added[p])

RefExpect(R, u, v, t, e) ==
  IF t = NoT THEN "NetworkXError"
  ELSE IF RefRejects(R, Norm(R.dir, u, v), t) THEN "ValueError"
  ELSE "ok"

\* effect of one *accepted* call
RefAdd(R, u, v, t, e) ==
  LET p == Norm(R.dir, u, v)
      S == RefSpan(R, t, e)
  IN IF S = {} THEN [R EXCEPT !.deg = @ \cup ({p} \ DOMAIN R.added),
                              !.maybe = @ \cup {u, v}]
     ELSE [R EXCEPT !.added = (p :> (AddedOf(R, p) \cup S)) @@ @,
                    !.deg   = @ \ {p},
                    !.nodes = @ \cup {u, v}]

\* bulk helpers: the elements are applied in order, the first rejected
\* element stops the call (C07: the state is that of the preceding elements)
RECURSIVE RefAddMany(_, _, _, _)
RefAddMany(R, ps, t, e) ==
  IF ps = <<>> THEN [r |-> R, res |-> "ok", k |-> 0]
  ELSE LET x == RefExpect(R, ps[1][1], ps[1][2], t, e) IN
       IF x # "ok" THEN [r |-> R, res |-> x, k |-> 1]
       ELSE LET rest == RefAddMany(RefAdd(R, ps[1][1], ps[1][2], t, e), Tail(ps), t, e)
            IN [rest EXCEPT !.k = IF rest.res = "ok" THEN 0 ELSE @ + 1]

PathPairs(ns)  == [i \in 1 .. (Len(ns) - 1) |-> <<ns[i], ns[i + 1]>>]
StarPairs(ns)  == [i \in 1 .. (Len(ns) - 1) |-> <<ns[1], ns[i + 1]>>]
CyclePairs(ns) == [i \in 1 .. Len(ns) |-> <<ns[i], IF i = Len(ns) THEN ns[1] ELSE ns[i + 1]>>]

\* presence relation the statements assign to the graph
\*   removal enabled (C01): the union of the added spans
\*   accumulative   (C08): from the first add up to the latest snapshot id
RefAllInstants(R) == UNION { R.added[p] : p \in DOMAIN R.added }
RefPres(R, p, maxid) ==
  IF p \notin DOMAIN R.added THEN {}
  ELSE IF R.rem THEN R.added[p]
  ELSE MinOf(R.added[p]) .. maxid

\* node level
RefAddNode(R, n, a) == [R EXCEPT !.nodes = @ \cup {n},
                                 !.attr = IF a = 0 THEN @ ELSE (n :> a) @@ @]
AttrOf(R, n) == IF n \in DOMAIN R.attr THEN R.attr[n] ELSE 0
\* update_node_attr / update_node_attr_from / set_node_attributes on nodes of the graph: the value a
\* (0 = the attribute is removed, as update_node_attr replaces the whole dictionary)
RefSetAttr(R, ns, a) ==
  LET hit == ns \cap (R.nodes \cup R.maybe) IN
  [R EXCEPT !.attr = [n \in DOMAIN @ \cup hit |-> IF n \in hit THEN a ELSE @[n]]]
=============================================================================
