\* derived constructors on every reachable removal-enabled state: 2 nodes with
\* self-loops and reciprocal pairs, instants 0..1, every window of the grid
SPECIFICATION Spec
CONSTANTS
  Nodes <- NN2
  TMax = 1
  Modes <- RemModes
  Loops = TRUE
  Bulk = FALSE
  Degenerate = FALSE
  KF <- PinnedKF
VIEW view
INVARIANT InvSlice
INVARIANT InvSliceSlice
INVARIANT InvConvert
INVARIANT InvSnapshotsRoundTrip
INVARIANT InvInteractionsRoundTrip
INVARIANT InvJsonRoundTrip
CHECK_DEADLOCK FALSE
