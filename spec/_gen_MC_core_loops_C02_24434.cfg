\* 2 nodes with self-loops (3 undirected pairs / 4 directed pairs), instants
\* 0..1, no empty spans, no bulk helpers
SPECIFICATION Spec
CONSTANTS
  Nodes <- N2
  TMax = 1
  Modes <- AllModes
  Loops = TRUE
  Bulk = FALSE
  Degenerate = FALSE
  KF <- PinnedKF
VIEW view
CHECK_DEADLOCK FALSE
INVARIANT InvRefines
