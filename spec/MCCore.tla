------------------------------- MODULE MCCore -------------------------------
(***************************************************************************)
(* Model checking of the implementation-shaped model (DynImpl) against the  *)
(* clauses (Clauses) over a bounded universe, and generator of witness      *)
(* histories for the spec -> code replay.                                   *)
(*                                                                          *)
(* Every call of the alphabet is enabled in every state (a call may be      *)
(* rejected, it is never disabled).  `hist` is outside the VIEW: TLC        *)
(* de-duplicates by <<G, R, T>> and every stored state keeps one            *)
(* BFS-shortest history reaching it.                                        *)
(***************************************************************************)
EXTENDS DynImpl, Clauses

CONSTANTS Nodes,      \* e.g. {1, 2}
          TMax,       \* instants 0 .. TMax
          Modes,      \* subset of {<<dir, rem>>}
          Loops,      \* self-loops in the alphabet
          Bulk,       \* bulk helpers in the alphabet
          Degenerate  \* empty spans (e <= t) in the alphabet

VARIABLES G, R, T, hist
vars == <<G, R, T, hist>>
view == <<G, R, T>>

Times   == 0 .. TMax
GridSet == (0 - 1) .. (TMax + 2)

EndPts == { <<u, v>> \in Nodes \X Nodes : Loops \/ u # v }
Spans  == { <<t, NoEnd>> : t \in Times }
            \cup { <<t, e>> \in Times \X (0 .. (TMax + 1)) : Degenerate \/ e > t }   \* e <= t: empty span
SingleCalls ==
  { [op |-> "add_interaction", u |-> q[1], v |-> q[2], t |-> s[1], e |-> s[2]]
      : q \in EndPts, s \in Spans }
  \cup { [op |-> "add_interaction", u |-> q[1], v |-> q[2], t |-> NoT, e |-> NoEnd] : q \in EndPts }
NodeSeqs == { <<a>> : a \in Nodes } \cup { <<a, b>> : a \in Nodes, b \in Nodes }
              \cup { <<a, b, c>> : a \in Nodes, b \in Nodes, c \in Nodes }
BulkCalls ==
  IF ~Bulk THEN {} ELSE
  { c \in { [op |-> o, ns |-> ns, t |-> t, e |-> NoEnd]
               : o \in {"add_path", "add_star", "add_cycle"},
                 ns \in { x \in NodeSeqs : Loops \/ \A i, j \in DOMAIN x : i # j => x[i] # x[j] },
                 t \in Times \cup {NoT} }
        : Loops \/ c.op # "add_cycle" \/ Len(c.ns) > 1 }
  \cup { [op |-> "add_interactions_from", ps |-> ps, t |-> s[1], e |-> s[2]]
      : ps \in { <<a, b>> : a \in EndPts, b \in EndPts }, s \in Spans \cup {<<NoT, NoEnd>>} }
Calls == SingleCalls \cup BulkCalls

Apply(g, c) ==
  IF c.op = "add_interaction" THEN Add(g, c.u, c.v, c.t, c.e)
  ELSE AddFrom(g, PairsOfCall(c), c.t, c.e)

(***************************************************************************)
(* Projection of the model state to an observation (same shape as the one   *)
(* the harness records from the real code).                                 *)
(***************************************************************************)
NodePresent(g, n, t) == \E m \in g.nodes : HasAt(g, n, m, t) \/ HasAt(g, m, n, t)
NNodes(g, t) == Cardinality({ n \in g.nodes : NodePresent(g, n, t) })
RECURSIVE SumOver(_, _, _)
SumOver(g, S, dummy) == IF S = {} THEN 0
                        ELSE LET t == CHOOSE x \in S : TRUE IN NNodes(g, t) + SumOver(g, S \ {t}, dummy)
ObsOf(g) ==
  LET ids == Ids(g)
      es  == EvSeq(g)
      st  == [i \in DOMAIN es |-> <<es[i][1][1], es[i][1][2], es[i][2], es[i][3]>>]
      ent(p) == [u |-> p[1], v |-> p[2], iv |-> g.tl[p]]
      rev(p) == [u |-> p[2], v |-> p[1], iv |-> g.tl[p]]
  IN [ nodes   |-> SetToSeq(g.nodes),
       attrs   |-> SetToSeq({ <<n, IF n \in DOMAIN g.attr THEN g.attr[n] ELSE 0>> : n \in g.nodes }),
       tl      |-> SetToSeq({ ent(p) : p \in DOMAIN g.tl }),
       tlnb    |-> SetToSeq({ ent(p) : p \in DOMAIN g.tl }
                             \cup (IF g.dir THEN {} ELSE { rev(p) : p \in DOMAIN g.tl })),
       has     |-> SetToSeq({ [u |-> q[1], v |-> q[2],
                               ts |-> SortedSeq({ t \in GridSet : HasAt(g, q[1], q[2], t) })]
                              : q \in Nodes \X Nodes }),
       flat    |-> SetToSeq({ q \in Nodes \X Nodes : HasPair(g, q[1], q[2]) }),
       ids     |-> ids,
       cnt     |-> [i \in DOMAIN ids |-> <<ids[i], g.snap[ids[i]], 2>>],
       ids2    |-> ids,
       cnt2    |-> [i \in DOMAIN ids |-> <<ids[i], g.snap[ids[i]], 2>>],
       cntAt   |-> SetToSeq({ <<t, CountAt(g, t)[1], CountAt(g, t)[2]>> : t \in GridSet }),
       nn      |-> SetToSeq({ <<t, NNodes(g, t)>> : t \in GridSet }),
       avg     |-> IF ids = <<>> THEN <<>> ELSE <<SumOver(g, DOMAIN g.snap, 0), Len(ids)>>,
       stream  |-> st,
       stream2 |-> st,
       grid    |-> <<0 - 1, TMax + 2>>,
       err     |-> <<>>,
       raw     |-> g ]

(***************************************************************************)
(* Behaviour                                                                *)
(***************************************************************************)
Init == /\ \E m \in Modes : G = EmptyG(m[1], m[2]) /\ R = EmptyRef(m[1], m[2])
        /\ T = {}
        /\ hist = <<>>

Do(c) == LET a  == Apply(G, c)
             rs == RefStep(R, T, ObsOf(G), c, a.res)
         IN /\ G' = a.g
            /\ R' = rs.r
            /\ T' = rs.t
            /\ hist' = Append(hist, c)

Next == \E c \in Calls : Do(c)
Spec == Init /\ [][Next]_vars

(***************************************************************************)
(* Properties (design level).  Status "KFn" is tolerated only when the      *)
(* deviant branch n is enabled; StrictXX is what the ideal design (KF = {}) *)
(* satisfies and what an enabled finding must violate.                      *)
(***************************************************************************)
Table == CoreTable(R, ObsOf(G), T)
Prefix(x, c) == SubSeq(x[1], 1, 3) = c
Holds(c)  == \A x \in Table : Prefix(x, c) => x[2] # "fail"
Strict(c) == \A x \in Table : Prefix(x, c) => x[2] = "ok"

InvC01 == Holds("C01")
InvC03 == Holds("C03")
InvC04 == Holds("C04")
InvC05 == Holds("C05")
InvC08 == Holds("C08")
StrictC05 == Strict("C05")

\* C01_c / C07 for every call of the alphabet in every reachable state
InvC01c == \A c \in Calls : C01_c(R, c, Apply(G, c).res)
InvC07  == \A c \in Calls :
             LET a == Apply(G, c) IN
             /\ C07_a(R, c, a.res, [raw |-> G], [raw |-> a.g])
             /\ (a.res # "ok" /\ IsBulk(c) /\ c.t # NoT) =>
                   LET k == RefAddMany(R, PairsOfCall(c), c.t, c.e).k IN
                   k > 0 /\ a.g = AddMany(G, SubSeq(PairsOfCall(c), 1, k - 1), c.t, c.e).g

\* the model refines the reference: stored timelines are the canonical
\* timelines of the added spans (removal) -- "model drift" detector
InvRefines == \A p \in DOMAIN G.tl \cup DOMAIN R.added :
                 /\ p \in DOMAIN G.tl /\ p \in DOMAIN R.added
                 /\ G.tl[p] = RunsSeq(R.added[p])
=============================================================================
