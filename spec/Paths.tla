------------------------------- MODULE Paths --------------------------------
(***************************************************************************)
(* Time-respecting paths (C12, C13) and the temporal DAG (C15).             *)
(*                                                                          *)
(* A temporal graph is a set P of presence triples <<a, b, t>> (both orders *)
(* of an undirected pair) together with its ascending snapshot ids.  A hop  *)
(* is a triple; a path is a non-empty sequence of hops.                     *)
(***************************************************************************)
EXTENDS ParsersSpec

NoNode == 0      \* "v omitted"

OutAt(P, b, x) == \E y \in P : y[1] = b /\ y[3] = x

\* the statement of C12, literally
ValidPath(P, ids, h, u, v, s, e) ==
  /\ Len(h) >= 1
  /\ h[1][1] = u
  /\ \A i \in DOMAIN h :
       /\ h[i] \in P                                           \* the hop is an interaction present at its time
       /\ s <= h[i][3] /\ h[i][3] <= e                         \* inside the window
  /\ \A i \in 1 .. (Len(h) - 1) :
       /\ h[i][2] = h[i + 1][1]                                \* hops chain
       /\ h[i][3] < h[i + 1][3]                                \* times strictly increase
       /\ ~(h[i + 1][2] = h[i][1])                             \* no immediate reversal
       /\ \A x \in ToSet(ids) : (h[i][3] < x /\ x < h[i + 1][3]) => OutAt(P, h[i][2], x)   \* waiting node stays active
  /\ v # NoNode => h[Len(h)][2] = v

\* brute-force enumeration: closure of the one-hop paths under extension
Extensions(P, ids, h, s, e) ==
  LET l == h[Len(h)] IN
  { Append(h, y) : y \in { z \in P :
       /\ z[1] = l[2] /\ z[3] > l[3] /\ z[3] <= e /\ z[2] # l[1]
       /\ \A x \in ToSet(ids) : (l[3] < x /\ x < z[3]) => OutAt(P, l[2], x) } }
RECURSIVE Closure(_, _, _, _, _)
Closure(P, ids, F, s, e) ==
  IF F = {} THEN {}
  ELSE LET N == UNION { Extensions(P, ids, h, s, e) : h \in F } IN F \cup Closure(P, ids, N, s, e)
AllFrom(P, ids, u, s, e) ==
  Closure(P, ids, { <<y>> : y \in { z \in P : z[1] = u /\ s <= z[3] /\ z[3] <= e } }, s, e)
AllPaths(P, ids, u, v, s, e) ==
  IF v = NoNode THEN AllFrom(P, ids, u, s, e)
  ELSE { h \in AllFrom(P, ids, u, s, e) : h[Len(h)][2] = v }

FirstId(ids) == ids[1]
LastId(ids)  == ids[Len(ids)]
EffStart(ids, s) == IF s = NoT THEN FirstId(ids) ELSE s
EffEnd(ids, e)   == IF e = NoT THEN LastId(ids) ELSE e
\* temporal_dag's notion of a valid window
ValidWindow(ids, s, e) == /\ FirstId(ids) <= s /\ s <= e /\ e <= LastId(ids)
NodeAt(P, n, t) == \E y \in P : (y[1] = n \/ y[2] = n) /\ y[3] = t

(***************************************************************************)
(* Known finding KF7: a self-loop of the root u at a source instant t gives *)
(* the DAG the edge u@t -> u@t (a cycle), and since only simple DAG paths   *)
(* are enumerated, every path whose first hop is that self-loop is missed.  *)
(***************************************************************************)
KF7_missing(all, got, u) ==
  /\ got \subseteq all
  /\ all \ got # {}
  /\ \A h \in all \ got : h[1][1] = u /\ h[1][2] = u

(***************************************************************************)
(* Clauses for a logged query  q = [fn, u, v, s, e, sample, res, paths]     *)
(*   paths: << [ku, kw, h, tup], ... >>  one entry per returned path        *)
(*          (ku, kw the dictionary key, h the hops, tup: it was a tuple)    *)
(***************************************************************************)
PathsOf(q) == { q.paths[i].h : i \in DOMAIN q.paths }
\* The paths that may not be missed hop at snapshot ids ("interaction chains of length 1 within each network
\* snapshot").  On a removal-enabled graph every instant of presence is a snapshot id (C04) and this is all of P;
\* on an accumulative graph interactions persist between the ids as well and the enumeration ranges over the ids.
AtIds(P, ids) == { x \in P : x[3] \in ToSet(ids) }

TRP_Table(O, q) ==
  LET P   == Triples(O)
      ids == O.ids
  IN
  IF ids = <<>> THEN { <<"C13_b_empty_without_snapshots", St(q.res = "ok" /\ q.paths = <<>>)>> }
  ELSE
  LET s == EffStart(ids, q.s)
      e == EffEnd(ids, q.e)
  IN
  IF ~NodeAt(P, q.u, s)
  THEN { <<"C13_b_empty_when_absent_at_start", St(q.res = "ok" /\ q.paths = <<>>)>> }
  ELSE IF ~ValidWindow(ids, s, e)
  THEN {}     \* C12 / C13 quantify over windows inside the snapshot range; C15 states ValueError for temporal_dag only
  ELSE IF q.res # "ok" THEN { <<"C12_x_no_exception", "fail">>, <<"C13_x_no_exception", "fail">> }
  ELSE
  LET all == AllPaths(AtIds(P, ids), ids, q.u, q.v, s, e)
      got == PathsOf(q)
  IN
  { <<"C12_a_every_path_is_genuine", St(\A h \in got : ValidPath(P, ids, h, q.u, q.v, s, e))>>,
    <<"C12_b_keys_tuples_no_duplicates",
      St(/\ \A i \in DOMAIN q.paths :
              LET x == q.paths[i] IN
              /\ x.tup /\ Len(x.h) >= 1
              /\ x.ku = x.h[1][1] /\ x.kw = x.h[Len(x.h)][2]
         /\ Cardinality(got) = Len(q.paths))>>,
    <<IF q.sample = 100 THEN "C13_a_no_path_missed" ELSE "C13_c_sample_is_subset",
      IF q.sample = 100 THEN StKF(got = all, KF7_missing(all, got, q.u), "KF7") ELSE St(got \subseteq all)>> }

\* all_time_respecting_paths(G, start, end, min_t = m): q.paths entries are
\* keyed (u, w); q.per[u] = the logged time_respecting_paths(G,u,None,s,e)
ATRP_Table(O, q) ==
  LET P == Triples(O)  ids == O.ids IN
  IF ids = <<>> THEN {}
  ELSE
  LET s  == EffStart(ids, q.s)
      e  == EffEnd(ids, q.e)
  IN
  IF ~ValidWindow(ids, s, e) THEN {}     \* C13 quantifies over windows inside the snapshot range
  ELSE IF q.res # "ok" THEN { <<"C13_d_all_paths_no_exception", "fail">> }
  ELSE
  LET us == IF q.m = NoT THEN NodesOf(O) ELSE { n \in NodesOf(O) : NodeAt(P, n, q.m) }
      expected == UNION { IF NodeAt(P, u, s) THEN AllFrom(AtIds(P, ids), ids, u, s, e) ELSE {} : u \in us }
  IN
  { <<"C13_d_all_paths_union",
      StKF(/\ PathsOf(q) = expected
           /\ \A i \in DOMAIN q.paths :
                LET x == q.paths[i] IN x.ku = x.h[1][1] /\ x.kw = x.h[Len(x.h)][2],
           /\ PathsOf(q) \subseteq expected
           /\ \A h \in expected \ PathsOf(q) : h[1][1] = h[1][2]
           /\ \A i \in DOMAIN q.paths :
                LET x == q.paths[i] IN x.ku = x.h[1][1] /\ x.kw = x.h[Len(x.h)][2],
           "KF7")>>,
    <<"C12_a_every_path_is_genuine",
      St(\A h \in PathsOf(q) : ValidPath(P, ids, h, h[1][1], NoNode, s, e))>> }

(***************************************************************************)
(* temporal_dag:  q = [u, v, s, e, res, edges, sources, targets, dnodes]    *)
(* occurrences are <<node, time>>; edges << <<X,s>>, <<Y,t>> >>             *)
(***************************************************************************)
DAG_Table(O, q) ==
  LET P == Triples(O)  ids == O.ids IN
  IF ids = <<>>
  THEN { <<"C15_f_empty_without_snapshots", St(q.res = "ok" /\ q.edges = <<>> /\ q.sources = <<>> /\ q.targets = <<>>)>> }
  ELSE
  LET s == EffStart(ids, q.s)
      e == EffEnd(ids, q.e)
  IN
  IF ~ValidWindow(ids, s, e) THEN { <<"C15_f_invalid_window", St(q.res = "ValueError")>> }
  ELSE IF q.res # "ok" THEN { <<"C15_x_no_exception", "fail">> }
  ELSE
  LET E   == ToSet(q.edges)
      Src == ToSet(q.sources)
      Tgt == ToSet(q.targets)
      win == { t \in ToSet(ids) : s <= t /\ t <= e }
      reached == { x[2] : x \in E }
  IN
  { <<"C15_a_acyclic",
      StKF(\A x \in E : x[1] # x[2] /\ (x[1][2] < x[2][2] \/ (x[1][2] = x[2][2] /\ x[1] \in Src)),
           \A x \in E : (x[1][2] < x[2][2] \/ (x[1][2] = x[2][2] /\ x[1] \in Src))
                         /\ (x[1] = x[2] => x[1] \in Src /\ x[1][1] = q.u),
           "KF7")>>,
    <<"C15_b_edges_are_interactions_in_window",
      St(\A x \in E : <<x[1][1], x[2][1], x[2][2]>> \in P /\ s <= x[2][2] /\ x[2][2] <= e)>>,
    <<"C15_c_sources", St(Src = { <<q.u, t>> : t \in { x \in win : OutAt(P, q.u, x) } } /\ Len(q.sources) = Cardinality(Src))>>,
    <<"C15_d_targets", St(\A x \in Tgt : (q.v = NoNode \/ x[1] = q.v) /\ x \in reached)>>,
    <<"C15_e_sources_targets_in_dag", St(Src \cup Tgt \subseteq ToSet(q.dnodes))>> }
=============================================================================
