\* 2 nodes without self-loops (1 undirected pair in both endpoint orders /
\* 2 directed pairs), instants 0..3, all four class/mode combinations, empty
\* spans and bulk helpers in the alphabet, pinned deviations enabled (= the
\* model of the code as it is)
SPECIFICATION Spec
CONSTANTS
  Nodes <- N2
  TMax = 3
  Modes <- AllModes
  Loops = FALSE
  Bulk = TRUE
  Degenerate = TRUE
  KF <- PinnedKF
VIEW view
INVARIANT InvC01
INVARIANT InvC03
INVARIANT InvC04
INVARIANT InvC05
INVARIANT InvC08
INVARIANT InvC01c
INVARIANT InvC07
INVARIANT InvRefines
CHECK_DEADLOCK FALSE
