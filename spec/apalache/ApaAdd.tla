------------------------------- MODULE ApaAdd --------------------------------
(***************************************************************************)
(* Apalache (symbolic, unbounded integers): the per-pair *inductive*        *)
(* invariant behind C03 / C05 for the implementation-shaped model of        *)
(* add_interaction (spec/DynImpl.tla, removal-enabled graph, one pair).     *)
(*                                                                          *)
(* State of one pair: its stored timeline tl, the instants P of its '+'     *)
(* events and the instants M of its '-' events.                             *)
(*                                                                          *)
(*   IndInv == Canonical(tl)                                                *)
(*          /\ P = the run starts            ('+' exactly where a run opens)*)
(*          /\ M \subseteq the run ends + 1  ('-' only where a run closes)  *)
(*          /\ every run of >= 3 instants is closed by its '-'              *)
(*             (every run of >= 2 instants when the pinned deviation KF1    *)
(*             is switched off: Strict = TRUE)                              *)
(*                                                                          *)
(* `Step` is one accepted call add_interaction(u, v, t, e) on that pair,    *)
(* with the same case analysis as DynImpl.Add (Reject / EmptySpan are       *)
(* stuttering); t, e and "e given" are arbitrary integers / booleans.       *)
(* Checked with                                                             *)
(*   apalache-mc check --init=IndInit --inv=IndInv --length=1 ApaAdd.tla    *)
(* (IndInit = any state satisfying IndInv with at most 4 intervals), i.e.   *)
(* IndInv /\ Step => IndInv' for all integers; and Init => IndInv at        *)
(* length 0.  TLC checks the same clauses on the whole graph model over     *)
(* bounded instants (spec/MCCore.tla).                                      *)
(***************************************************************************)
EXTENDS Integers, Sequences, FiniteSets, Apalache

CONSTANT
  \* @type: Bool;
  Strict        \* TRUE: the repaired closing rule everywhere (KF1 off)

VARIABLES
  \* @type: Seq(<<Int, Int>>);
  tl,
  \* @type: Set(Int);
  P,
  \* @type: Set(Int);
  M

\* @type: (Seq(<<Int, Int>>)) => Bool;
Canonical(s) ==
  /\ \A i \in DOMAIN s : s[i][1] <= s[i][2]
  /\ \A i \in DOMAIN s : i > 1 => s[i - 1][2] + 1 < s[i][1]

IndInv ==
  /\ Len(tl) <= 5
  /\ Canonical(tl)
  /\ P = { tl[i][1] : i \in DOMAIN tl }
  /\ \A m \in M : \E i \in DOMAIN tl : m = tl[i][2] + 1
  /\ \A i \in DOMAIN tl :
       (tl[i][2] - tl[i][1] >= (IF Strict THEN 1 ELSE 2)) => (tl[i][2] + 1) \in M

\* one call add_interaction(., ., t, e) with "e given" = hasE (e ignored otherwise)
\* @type: (Int, Int, Bool) => Bool;
Add(t, e, hasE) ==
  LET end == IF hasE THEN e - 1 ELSE t
      k   == Len(tl)
  IN
  IF k > 0 /\ t < tl[k][1] THEN UNCHANGED <<tl, P, M>>            \* Reject
  ELSE IF end < t THEN UNCHANGED <<tl, P, M>>                      \* EmptySpan
  ELSE IF k = 0 THEN                                               \* NewPair
    /\ tl' = << <<t, end>> >>
    /\ P' = {t}
    /\ M' = IF hasE THEN {end + 1} ELSE {}
  ELSE LET la == tl[k][1]  lb == tl[k][2] IN
    IF end <= lb THEN                                              \* Contained
      /\ UNCHANGED <<tl, P>>
      /\ M' = IF hasE /\ end = lb THEN M \cup {end + 1} ELSE M
    ELSE IF t <= lb + 1 THEN                                       \* ExtendOverlap / ExtendAdjacent
      LET closed == (lb + 1) \in M
          close  == hasE \/ closed \/ lb > la \/ Strict
          m1     == M \ {lb + 1}
      IN /\ tl' = [tl EXCEPT ![k] = <<la, end>>]
         /\ UNCHANGED P
         /\ M' = IF close THEN m1 \cup {end + 1} ELSE m1
    ELSE                                                           \* AppendRun
      /\ k < 5
      /\ tl' = Append(tl, <<t, end>>)
      /\ P' = P \cup {t}
      /\ M' = IF hasE THEN M \cup {end + 1} ELSE M

CInit == Strict \in BOOLEAN

Init == tl = <<>> /\ P = {} /\ M = {}

IndInit ==
  /\ tl = Gen(4)
  /\ P = Gen(4)
  /\ M = Gen(4)
  /\ IndInv

Next == \E t \in Int, e \in Int, hasE \in BOOLEAN : Add(t, e, hasE)
==============================================================================
