------------------------------ MODULE ApaMerge -------------------------------
(***************************************************************************)
(* Apalache (symbolic, unbounded integers): the per-pair Merge lemma behind *)
(* C01 / C03 for every canonical timeline of up to N intervals over         *)
(* arbitrary integers, every non-rejected span a..b and every instant x:    *)
(*   Canonical(s) /\ a <= b /\ (s = <<>> \/ a >= start of the last run)     *)
(*     => Canonical(Merge(s,a,b))                                           *)
(*        /\ (x in Merge(s,a,b)  <=>  x in s \/ a <= x <= b)                *)
(* Checked as an invariant of the initial states (length 0): Init picks     *)
(* s, a, b, x arbitrarily.  TLC checks the same lemma exhaustively over     *)
(* 0..9 (spec/MCTemporal.tla); this run removes the bound on the integers.  *)
(***************************************************************************)
EXTENDS Integers, Sequences, Apalache

VARIABLES
  \* @type: Seq(<<Int, Int>>);
  s,
  \* @type: Int;
  a,
  \* @type: Int;
  b,
  \* @type: Int;
  x

\* @type: (Seq(<<Int, Int>>)) => Bool;
Canonical(tl) ==
  /\ \A i \in DOMAIN tl : tl[i][1] <= tl[i][2]
  /\ \A i \in DOMAIN tl : i > 1 => tl[i - 1][2] + 1 < tl[i][1]

\* @type: (Seq(<<Int, Int>>), Int) => Bool;
In(tl, y) == \E i \in DOMAIN tl : tl[i][1] <= y /\ y <= tl[i][2]

\* @type: (Seq(<<Int, Int>>), Int, Int) => Seq(<<Int, Int>>);
Merge(tl, lo, hi) ==
  IF Len(tl) = 0 THEN << <<lo, hi>> >>
  ELSE LET k == Len(tl) IN
       IF hi <= tl[k][2] THEN tl
       ELSE IF lo <= tl[k][2] + 1 THEN [tl EXCEPT ![k] = <<tl[k][1], hi>>]
       ELSE Append(tl, <<lo, hi>>)

Init == /\ s = Gen(5)
        /\ a = Gen(1)
        /\ b = Gen(1)
        /\ x = Gen(1)
Next == UNCHANGED <<s, a, b, x>>

Lemma ==
  (Canonical(s) /\ a <= b /\ (Len(s) = 0 \/ a >= s[Len(s)][1]))
    => /\ Canonical(Merge(s, a, b))
       /\ (In(Merge(s, a, b), x) <=> (In(s, x) \/ (a <= x /\ x <= b)))
==============================================================================
