------------------------------ MODULE MC_derived ------------------------------
EXTENDS MCDerived
RemModes    == { <<d, TRUE>> : d \in BOOLEAN }
AllModes    == { <<d, r>> : d \in BOOLEAN, r \in BOOLEAN }
PinnedKF    == {"KF1", "KF2", "KF3", "KF4", "KF6"}
IdealKF     == {}
NN2         == {1, 2}
===============================================================================
