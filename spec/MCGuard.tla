------------------------------- MODULE MCGuard -------------------------------
(***************************************************************************)
(* Design-level check of C19: the behaviour of MCCore extended with the     *)
(* other mutators a caller can reach -- add_node, clear(), clear_edges(),    *)
(* freeze(), and the blocked networkx mutators (which raise and change      *)
(* nothing).  Every reachable state must be well formed (C03-C05 relative   *)
(* to the reference that these actions update), and a frozen graph must not *)
(* change except through the timed add family when KF5 (pinned) is enabled. *)
(***************************************************************************)
EXTENDS MCCore

BlockedNames == {"add_edge", "add_edges_from", "add_weighted_edges_from", "update_edges", "remove_edge",
                 "remove_edges_from", "remove_node", "remove_nodes_from"}

DoAdd(c) ==
  /\ ~G.frozen \/ "KF5" \in KF
  /\ Do(c)
DoFrozenAdd(c) ==                          \* ideal design: a frozen graph rejects the add family too
  /\ G.frozen /\ "KF5" \notin KF
  /\ UNCHANGED <<G, R, T>> /\ hist' = Append(hist, c)
AddNodeAct(n) ==
  /\ ~G.frozen
  /\ G' = AddNode(G, n, 0) /\ R' = RefAddNode(R, n, 0)
  /\ UNCHANGED T /\ hist' = Append(hist, [op |-> "add_node", n |-> n, a |-> 0])
ClearAct ==
  /\ ~G.frozen
  /\ G' = EmptyG(G.dir, G.rem) /\ R' = EmptyRef(R.dir, R.rem) /\ T' = {}
  /\ hist' = Append(hist, [op |-> "clear"])
ClearEdgesAct ==
  /\ ~G.frozen
  /\ G' = [EmptyG(G.dir, G.rem) EXCEPT !.nodes = G.nodes, !.attr = G.attr]
  /\ R' = [EmptyRef(R.dir, R.rem) EXCEPT !.nodes = R.nodes \cup R.maybe, !.attr = R.attr]
  /\ T' = {}
  /\ hist' = Append(hist, [op |-> "clear_edges"])
FreezeAct ==
  /\ ~G.frozen
  /\ G' = [G EXCEPT !.frozen = TRUE] /\ R' = [R EXCEPT !.frozen = TRUE]
  /\ UNCHANGED T /\ hist' = Append(hist, [op |-> "freeze"])
BlockedAct(m) ==                            \* raises NetworkXNotImplemented (or the frozen error): nothing changes
  /\ UNCHANGED <<G, R, T>> /\ hist' = Append(hist, [op |-> m])

NextG == \/ \E c \in Calls : DoAdd(c) \/ DoFrozenAdd(c)
         \/ \E n \in Nodes : AddNodeAct(n)
         \/ ClearAct \/ ClearEdgesAct \/ FreezeAct
         \/ \E m \in BlockedNames : BlockedAct(m)
SpecG == Init /\ [][NextG]_vars

\* a frozen graph only changes through the (pinned) add family
FrozenImmutable ==
  [][ (G.frozen /\ G' # G) => ("KF5" \in KF /\ \E c \in Calls : G' = Apply(G, c).g) ]_vars
InvNodes == G.nodes = R.nodes \cup (G.nodes \cap R.maybe)
==============================================================================
