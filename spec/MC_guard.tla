------------------------------- MODULE MC_guard -------------------------------
EXTENDS MCGuard
AllModes == { <<d, r>> : d \in BOOLEAN, r \in BOOLEAN }
PinnedKF == {"KF1", "KF5"}
IdealKF  == {"KF1"}
NN2      == {1, 2}
===============================================================================
