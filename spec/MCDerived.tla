------------------------------ MODULE MCDerived ------------------------------
(***************************************************************************)
(* Design-level check of the derived constructors (C06, C16, C09, C10):     *)
(* implementation-shaped models of time_slice (the four clipping cases      *)
(* feeding add_interaction on a fresh graph), to_directed, to_undirected    *)
(* (union / intersection of the two timelines added in chronological        *)
(* order), write_snapshots / read_snapshots and write_interactions /        *)
(* read_interactions (readers as folds of Add over the rows in file order). *)
(* For every reachable state of MCCore and every window / option, the       *)
(* clauses of module Derived -- the same operators that judge the real      *)
(* code -- are evaluated on the model's result.                             *)
(***************************************************************************)
EXTENDS MCCore, Derived

PairSeq(g) == SetToSeq(DOMAIN g.tl)

RECURSIVE FoldAdds(_, _, _)
\* adds: sequence of <<u, v, t, e>>; stops at the first failure like the code would (exception)
FoldAdds(H, adds, i) ==
  IF i > Len(adds) THEN [g |-> H, res |-> "ok"]
  ELSE LET a == Add(H, adds[i][1], adds[i][2], adds[i][3], adds[i][4]) IN
       IF a.res # "ok" THEN [g |-> a.g, res |-> a.res] ELSE FoldAdds(a.g, adds, i + 1)

Flatten(ss) == FoldLeft(LAMBDA acc, s : acc \o s, <<>>, ss)

(***************************************************************************)
(* time_slice(f, t)                                                         *)
(***************************************************************************)
ClipAdds(p, tl, f, t) ==
  Flatten([k \in DOMAIN tl |->
     LET a == tl[k][1]  b == tl[k][2] IN
     IF t < a \/ f > b THEN <<>>
     ELSE IF f >= a /\ t <= b THEN << <<p[1], p[2], f, t + 1>> >>
     ELSE IF a >= f /\ t <= b THEN << <<p[1], p[2], a, t + 1>> >>
     ELSE IF f >= a /\ b <= t THEN << <<p[1], p[2], f, b + 1>> >>
     ELSE << <<p[1], p[2], a, b + 1>> >>])
SliceOf(g, f, t) ==
  IF t < f THEN [g |-> EmptyG(g.dir, TRUE), res |-> "ValueError"]
  ELSE LET ps   == PairSeq(g)
           adds == Flatten([k \in DOMAIN ps |-> ClipAdds(ps[k], g.tl[ps[k]], f, t)])
           r    == FoldAdds(EmptyG(g.dir, TRUE), adds, 1)
       IN [g |-> [r.g EXCEPT !.attr = [n \in DOMAIN g.attr \cap r.g.nodes |-> g.attr[n]]], res |-> r.res]

(***************************************************************************)
(* conversions                                                              *)
(***************************************************************************)
SortIv(S) == SetToSortSeq(S, LAMBDA x, y : x[1] < y[1] \/ (x[1] = y[1] /\ x[2] < y[2]))
ToUndirectedOf(g, recip) ==
  LET ups  == { Norm(FALSE, p[1], p[2]) : p \in DOMAIN g.tl }
      tlOf(q) == IF q \in DOMAIN g.tl THEN g.tl[q] ELSE <<>>
      spans(p) ==
        LET out == tlOf(<<p[1], p[2]>>)  back == tlOf(<<p[2], p[1]>>) IN
        IF recip
        THEN SortIv({ <<MaxOf({out[i][1], back[j][1]}), MinOf({out[i][2], back[j][2]})>>
                       : <<i, j>> \in { x \in (DOMAIN out) \X (DOMAIN back) :
                              MaxOf({out[x[1]][1], back[x[2]][1]}) <= MinOf({out[x[1]][2], back[x[2]][2]}) } })
        ELSE SortIv(ToSet(out) \cup ToSet(back))
      ps   == SetToSeq(ups)
      adds == Flatten([k \in DOMAIN ps |->
                 LET sp == spans(ps[k]) IN [m \in DOMAIN sp |-> <<ps[k][1], ps[k][2], sp[m][1], sp[m][2] + 1>>]])
      r    == FoldAdds([EmptyG(FALSE, TRUE) EXCEPT !.nodes = g.nodes, !.attr = g.attr], adds, 1)
  IN r
\* KF3 (pinned): one direction only
ToDirectedOf(g) ==
  LET ps   == PairSeq(g)
      one(p) == [m \in DOMAIN g.tl[p] |-> <<p[1], p[2], g.tl[p][m][1], g.tl[p][m][2] + 1>>]
      rev(p) == [m \in DOMAIN g.tl[p] |-> <<p[2], p[1], g.tl[p][m][1], g.tl[p][m][2] + 1>>]
      adds == Flatten([k \in DOMAIN ps |-> IF "KF3" \in KF \/ ps[k][1] = ps[k][2] THEN one(ps[k])
                                           ELSE one(ps[k]) \o rev(ps[k])])
  IN FoldAdds([EmptyG(TRUE, TRUE) EXCEPT !.nodes = g.nodes, !.attr = g.attr], adds, 1)

(***************************************************************************)
(* edge-list files: the file is a sequence of rows                          *)
(***************************************************************************)
SnapshotRows(g) ==
  LET ps == PairSeq(g) IN
  Flatten([k \in DOMAIN ps |->
     Flatten([m \in DOMAIN g.tl[ps[k]] |->
        LET iv == g.tl[ps[k]][m] IN [d \in 1 .. (iv[2] - iv[1] + 1) |-> <<ps[k][1], ps[k][2], iv[1] + d - 1>>]])])
ReadSnapshotsOf(rows, dir) ==
  FoldAdds(EmptyG(dir, TRUE), [i \in DOMAIN rows |-> <<rows[i][1], rows[i][2], rows[i][3], NoEnd>>], 1)

InteractionRows(g) == LET es == EvSeq(g) IN [i \in DOMAIN es |-> <<es[i][1][1], es[i][1][2], es[i][2], es[i][3]>>]
RECURSIVE ReadInter(_, _, _)
ReadInter(H, rows, i) ==
  IF i > Len(rows) THEN [g |-> H, res |-> "ok"]
  ELSE LET u == rows[i][1]  v == rows[i][2]  s == rows[i][4]  p == Norm(H.dir, u, v) IN
       IF rows[i][3] = "+"
       THEN LET a == Add(H, u, v, s, NoEnd) IN
            IF a.res # "ok" THEN [g |-> a.g, res |-> a.res] ELSE ReadInter(a.g, rows, i + 1)
       ELSE IF p \notin DOMAIN H.tl THEN [g |-> H, res |-> "KeyError"]
            ELSE LET lb == H.tl[p][Len(H.tl[p])][2] IN
                 IF lb < s THEN ReadInter(Add(H, u, v, lb, s).g, rows, i + 1) ELSE ReadInter(H, rows, i + 1)

(***************************************************************************)
(* JSON node-link data: node list with attributes, one link per interaction *)
(* and instant; node_link_graph adds the nodes, then the links as point     *)
(* adds in file order; the directed argument decides only without the key   *)
(***************************************************************************)
NodeLinkDataOf(g) ==
  [directed |-> g.dir,
   nodes    |-> SetToSeq({ <<n, IF n \in DOMAIN g.attr THEN g.attr[n] ELSE 0>> : n \in g.nodes }),
   links    |-> SnapshotRows(g)]
NodeLinkGraphOf(d, haskey, argdir) ==
  LET dir  == IF haskey THEN d.directed ELSE argdir
      ns   == { x[1] : x \in ToSet(d.nodes) }
      at   == [n \in { x[1] : x \in { y \in ToSet(d.nodes) : y[2] # 0 } } |->
                 (CHOOSE x \in ToSet(d.nodes) : x[1] = n)[2]]
      base == [EmptyG(dir, TRUE) EXCEPT !.nodes = ns, !.attr = at]
  IN FoldAdds(base, [i \in DOMAIN d.links |-> <<d.links[i][1], d.links[i][2], d.links[i][3], NoEnd>>], 1)
(***************************************************************************)
(* the logged-line shape of module Derived, built from the model            *)
(***************************************************************************)
LineOf(kind, g, r, extra) ==
  [kind |-> kind, res |-> r.res, hdir |-> r.g.dir,
   hcls |-> IF r.g.dir THEN "DynDiGraph" ELSE "DynGraph",
   src |-> ObsOf(g), src2 |-> ObsOf(g), obs |-> ObsOf(r.g), q |-> <<>>] @@ extra

JsonLine(g, haskey, argdir) ==
  LET d  == NodeLinkDataOf(g)
      r  == NodeLinkGraphOf(d, haskey, argdir)
      dg(gr) == SetToSeq({ <<n, IF n \in DOMAIN gr.attr THEN gr.attr[n] ELSE 0>> : n \in gr.nodes })
  IN LineOf("json", g, r,
            [rows |-> d.links, rowerr |-> <<>>, dumps |-> "ok", ddirok |-> TRUE, ddir |-> d.directed,
             dnodes |-> [i \in DOMAIN d.nodes |-> <<d.nodes[i][1], d.nodes[i][2], d.nodes[i][2]>>],
             gdig |-> dg(g), hdig |-> dg(r.g), ggraph |-> 0, dgraph |-> 0, hgraph |-> 0,
             haskey |-> haskey, argdir |-> argdir])

NoFail(tab) == \A x \in tab : x[2] # "fail"

Windows == { <<f, t>> \in GridSet \X GridSet : f <= t /\ t <= TMax + 1 }

InvSlice ==
  G.rem =>
    /\ \A w \in Windows :
         NoFail(DeriveTable(R, T, ObsOf(G), LineOf("time_slice", G, SliceOf(G, w[1], w[2]), [f |-> w[1], g |-> w[2]])))
    /\ NoFail(DeriveTable(R, T, ObsOf(G), LineOf("time_slice", G, SliceOf(G, 1, 0), [f |-> 1, g |-> 0])))
\* slicing a slice = slicing by the intersection of the windows
InvSliceSlice ==
  G.rem =>
    \A w1 \in Windows : \A w2 \in Windows :
      LET h1 == SliceOf(G, w1[1], w1[2]).g
          h2 == SliceOf(h1, w2[1], w2[2]) IN
      NoFail(DeriveTable(R, T, ObsOf(G), LineOf("time_slice2", G, h2,
                                                [f |-> w1[1], g |-> w1[2], f2 |-> w2[1], g2 |-> w2[2]])))
\* (accumulative sources included: the model re-adds the stored intervals into a removal-enabled graph, the table
\*  answers "KF8" for the presence clause - configuration MC_derived_acc)
InvConvert ==
  TRUE =>
    IF G.dir
    THEN /\ NoFail(DeriveTable(R, T, ObsOf(G), LineOf("to_undirected", G, ToUndirectedOf(G, FALSE), [recip |-> FALSE])))
         /\ NoFail(DeriveTable(R, T, ObsOf(G), LineOf("to_undirected", G, ToUndirectedOf(G, TRUE), [recip |-> TRUE])))
    ELSE NoFail(DeriveTable(R, T, ObsOf(G), LineOf("to_directed", G, ToDirectedOf(G), <<>>)))
InvSnapshotsRoundTrip ==
  G.rem =>
    NoFail(DeriveTable(R, T, ObsOf(G),
                       LineOf("snapshots", G, ReadSnapshotsOf(SnapshotRows(G), G.dir),
                              [rows |-> SnapshotRows(G), rowerr |-> <<>>])))
InvInteractionsRoundTrip ==
  G.rem =>
    NoFail(DeriveTable(R, T, ObsOf(G),
                       LineOf("interactions", G, ReadInter(EmptyG(G.dir, TRUE), InteractionRows(G), 1),
                              [rows |-> InteractionRows(G), rowerr |-> <<>>])))
InvJsonRoundTrip ==
  G.rem =>
    \A haskey \in BOOLEAN : \A argdir \in BOOLEAN :
      \* reading directed data as undirected is outside the property (DESIGN.md section 7)
      (haskey \/ argdir \/ ~G.dir) => NoFail(DeriveTable(R, T, ObsOf(G), JsonLine(G, haskey, argdir)))
==============================================================================
