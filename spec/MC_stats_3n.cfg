\* 3 nodes without self-loops, instants 0..1, DynGraph, removal enabled
SPECIFICATION Spec
CONSTANTS
  Nodes <- NN3
  TMax = 1
  Modes <- UndRemOnly
  Loops = FALSE
  Bulk = FALSE
  Degenerate = FALSE
  KF <- PinnedKF
VIEW view
INVARIANT InvStatsRange
INVARIANT InvInterEvent
CHECK_DEADLOCK FALSE
