------------------------------- MODULE Trace --------------------------------
(***************************************************************************)
(* Trace validation: traces recorded from the real dynetx code are judged   *)
(* by the same clauses that the model checker proves about the model.       *)
(*                                                                          *)
(* The file named by the environment variable TRACE_FILE holds a JSON array *)
(* of traces; a trace is an array of lines; a line is a record with         *)
(*   op     entry point ("new", the add family, "observe", ...)             *)
(*   fork   TRUE: the call was applied to a deep copy of the object; the    *)
(*          line is judged against the current reference state, which it    *)
(*          does not advance (spec -> code transition coverage)             *)
(*   res    "ok" or the name of the exception class                         *)
(*   obs    the observation after the call (module Clauses)                 *)
(* plus the arguments of the call.  Validation is *total*: a failing clause *)
(* is recorded in `fails` and the trace goes on; the reference state is     *)
(* computed from the logged calls and their result kinds only, never from   *)
(* the observed values.  One VERDICT line is printed per trace.             *)
(***************************************************************************)
EXTENDS Conformity, Json, IOUtils, TLCExt

Traces == JsonDeserialize(IOEnv.TRACE_FILE)

VARIABLES tid,     \* index of the trace this behaviour validates
          l,       \* next line
          R,       \* reference state
          T,       \* live known-finding taints
          prevO,   \* observation after the last non-fork line
          rej,     \* some earlier call of this trace raised
          fails,   \* {<<line, clause, status>>} with status # "ok"
          brs      \* {<<branch, result kind>>} of the single add_interaction calls (coverage of the model's disjuncts)
vars == <<tid, l, R, T, prevO, rej, fails, brs>>

Line == Traces[tid][l]
HasObs(line) == "obs" \in DOMAIN line

Judge(R0, R2, T2, line, rej2) ==
  LET tab  == CoreTable(R2, line.obs, T2)
      call == IF IsAdd(line)
              THEN { <<"C01_c_accept_reject", St(C01_c(R0, line, line.res))>>,
                     <<"C07_a_no_trace", St(C07_a(R0, line, line.res, prevO, line.obs))>>,
                     \* after a raising call the node set is that of the elements that preceded the failing one
                     <<"C07_c_nodes_as_if_prefix",
                       St(line.res # "ok" => /\ R2.nodes \subseteq NodesOf(line.obs)
                                             /\ NodesOf(line.obs) \subseteq R2.nodes \cup R2.maybe)>> }
              ELSE {}
      c07b == IF rej2 /\ \E x \in tab : x[2] = "fail" /\ SubSeq(x[1], 1, 3) \in {"C01", "C03", "C04", "C05", "C08"}
              THEN { <<"C07_b_as_if_never_made", "fail">> } ELSE {}
  IN { <<l, x[1], x[2]>> : x \in NotOk(tab \cup call) \cup c07b }

Init == /\ tid \in 1 .. Len(Traces)
        /\ l = 1
        /\ R = EmptyRef(FALSE, TRUE)
        /\ T = {}
        /\ prevO = [raw |-> "", stream |-> <<>>]
        /\ rej = FALSE
        /\ fails = {}
        /\ brs = {}

StepNew ==
  /\ Line.op = "new"
  /\ LET R2 == EmptyRef(Line.dir, Line.rem) IN
     /\ R' = R2 /\ T' = {} /\ prevO' = Line.obs /\ rej' = FALSE
     /\ fails' = fails \cup Judge(R2, R2, {}, Line, FALSE)

\* A line of a long history may carry no observation ("obs" absent): the reference advances, nothing is judged
\* at that line, and the next observed line is judged against the accumulated reference.  (KF1 taints are then
\* decided against the last observation seen, which can only explain more two-instant runs, never fewer.)
StepAdd ==
  /\ IsAdd(Line)
  /\ LET rs   == RefStep(R, T, prevO, Line, Line.res)
         rej2 == rej \/ Line.res # "ok"
     IN /\ fails' = IF HasObs(Line) THEN fails \cup Judge(R, rs.r, rs.t, Line, rej2) ELSE fails
        /\ IF Line.fork THEN UNCHANGED <<R, T, prevO, rej>>
           ELSE R' = rs.r /\ T' = rs.t /\ prevO' = (IF HasObs(Line) THEN Line.obs ELSE prevO) /\ rej' = rej2

StepNode ==
  /\ Line.op = "add_node"
  /\ LET R2 == IF Line.res = "ok" THEN RefAddNode(R, Line.n, Line.a) ELSE R IN
     /\ fails' = IF HasObs(Line) THEN fails \cup Judge(R, R2, T, Line, rej) ELSE fails
     /\ IF Line.fork THEN UNCHANGED <<R, T, prevO, rej>>
        ELSE R' = R2 /\ prevO' = (IF HasObs(Line) THEN Line.obs ELSE prevO) /\ UNCHANGED <<T, rej>>

\* node attribute setters (update_node_attr, update_node_attr_from, dn.set_node_attributes)
StepSetAttr ==
  /\ Line.op = "set_attr"
  /\ LET R2 == IF Line.res = "ok" THEN RefSetAttr(R, ToSet(Line.ns), Line.a) ELSE R IN
     /\ fails' = fails \cup Judge(R, R2, T, Line, rej)
     /\ R' = R2 /\ prevO' = Line.obs /\ UNCHANGED <<T, rej>>

\* clear() / clear_edges(): the reference is emptied (clear_edges keeps nodes and attributes)
StepClear ==
  /\ Line.op \in {"clear", "clear_edges"}
  /\ LET R2 == IF Line.res # "ok" THEN R
               ELSE IF Line.op = "clear" THEN EmptyRef(R.dir, R.rem)
               ELSE [EmptyRef(R.dir, R.rem) EXCEPT !.nodes = R.nodes, !.maybe = R.maybe, !.attr = R.attr]
         T2 == IF Line.res = "ok" THEN {} ELSE T
     IN /\ fails' = IF HasObs(Line) THEN fails \cup Judge(R, R2, T2, Line, rej) ELSE fails
        /\ IF Line.fork THEN UNCHANGED <<R, T, prevO, rej>>
           ELSE R' = R2 /\ T' = T2 /\ prevO' = (IF HasObs(Line) THEN Line.obs ELSE prevO) /\ UNCHANGED rej

StepObserve ==
  /\ Line.op = "observe"
  /\ fails' = fails \cup Judge(R, R, T, Line, rej)
  /\ UNCHANGED <<R, T, rej>>
  /\ prevO' = Line.obs

\* a read-only operation of the library (a conversion, a slice, a writer, node_link_data, path / statistics / query
\* calls) was applied to the live object and its result thrown away: the reference does not move, and the
\* observation that follows is judged like any other (nothing the library offers as a query may change the graph)
StepTouch ==
  /\ Line.op = "touch"
  /\ fails' = IF HasObs(Line) THEN fails \cup Judge(R, R, T, Line, rej) ELSE fails
  /\ UNCHANGED <<R, T, rej>>
  /\ prevO' = (IF HasObs(Line) THEN Line.obs ELSE prevO)

\* C02: a query battery on the current object (line.q = the entries)
StepBattery ==
  /\ Line.op = "battery"
  /\ fails' = fails \cup { <<l, x[1], x[2]>> : x \in NotOk(C02_Table(R, Line.obs, Line.q)) }
  /\ UNCHANGED <<R, T, rej, prevO>>

\* C06 / C16 / C09-C11: a graph derived from the current object
StepDerive ==
  /\ Line.op = "derive"
  /\ fails' = fails \cup { <<l, x[1], x[2]>> : x \in NotOk(DeriveTable(R, T, prevO, Line)) }
  /\ UNCHANGED <<R, T, rej, prevO>>

\* C18 / C09_c / C10_d: stateless lines (parsers, timestamp compaction)
StepParse ==
  /\ Line.op \in {"parse", "compact", "keys", "annotate"}
  /\ LET tab == CASE Line.op = "parse"   -> ParseTable(Line)
                  [] Line.op = "annotate" -> AnnotateTable(Line)
                  [] Line.op = "compact" -> CompactTable(Line)
                  [] Line.op = "keys"    -> KeysTable(Line)
     IN fails' = fails \cup { <<l, x[1], x[2]>> : x \in NotOk(tab) }
  /\ UNCHANGED <<R, T, rej, prevO>>

\* C12 / C13 / C15: path queries on the current object (line.qs), judged
\* against the presence relation observed in the same line
QTab(O, q) == CASE q.fn = "trp"  -> TRP_Table(O, q)
                [] q.fn = "atrp" -> ATRP_Table(O, q)
                [] q.fn = "dag"  -> DAG_Table(O, q)
\* C17: statistics of the current object (line.es), judged against the
\* presence relation and the stream observed in the same line
StepStats ==
  /\ Line.op = "stats"
  /\ fails' = fails \cup { <<l, x[1], x[2]>> : x \in NotOk(StatsTableR(Line.obs, Line.es, R.rem)) }
  /\ UNCHANGED <<R, T, rej, prevO>>

\* C19: one call of the inherited / blocked API on a copy of the current object
StepGuard ==
  /\ Line.op = "guard"
  /\ fails' = fails \cup { <<l, x[1], x[2]>> : x \in NotOk(GuardTable(R, prevO, Line)) }
  /\ UNCHANGED <<R, T, rej, prevO>>

\* C20: delta-conformity calls on the current (labelled) object
StepConf ==
  /\ Line.op = "conf"
  /\ fails' = fails \cup { <<l, x[1], x[2]>> : x \in ConfTable(Line.obs, Line.es, Line.ss) }
  /\ UNCHANGED <<R, T, rej, prevO>>

StepPaths ==
  /\ Line.op = "paths"
  /\ LET bad == UNION { NotOk(QTab(Line.obs, Line.qs[i])) : i \in DOMAIN Line.qs }
     IN fails' = fails \cup { <<l, x[1], x[2]>> : x \in bad }
  /\ UNCHANGED <<R, T, rej, prevO>>

Step == /\ brs' = IF l <= Len(Traces[tid]) /\ Line.op = "add_interaction"
                   THEN brs \cup { <<BranchOf(R, Line), Line.res>> } ELSE brs
        /\ l <= Len(Traces[tid])
        /\ (StepNew \/ StepAdd \/ StepNode \/ StepSetAttr \/ StepClear \/ StepObserve \/ StepTouch \/ StepBattery \/ StepDerive \/ StepParse \/ StepPaths \/ StepStats \/ StepGuard \/ StepConf)
        /\ l' = l + 1
        /\ UNCHANGED tid

Done == /\ l = Len(Traces[tid]) + 1
        /\ PrintT(<<"VERDICT", tid, Len(Traces[tid]), fails, brs>>)
        /\ l' = l + 1
        /\ UNCHANGED <<tid, R, T, prevO, rej, fails, brs>>

Next == Step \/ Done
Spec == Init /\ [][Next]_vars
=============================================================================
