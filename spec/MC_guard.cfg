\* 2 nodes without self-loops, instants 0..1, all class/mode combinations; adds, add_node,
\* clear, clear_edges, freeze and the blocked mutators interleaved
SPECIFICATION SpecG
CONSTANTS
  Nodes <- NN2
  TMax = 1
  Modes <- AllModes
  Loops = FALSE
  Bulk = FALSE
  Degenerate = FALSE
  KF <- PinnedKF
VIEW view
INVARIANT InvC01
INVARIANT InvC03
INVARIANT InvC04
INVARIANT InvC05
INVARIANT InvC08
INVARIANT InvNodes
PROPERTY FrozenImmutable
CHECK_DEADLOCK FALSE
