\* simulation beyond the exhaustive bounds: 4 nodes with self-loops, instants
\* 0..8, all class/mode combinations; run with -simulate num=N -depth 25
SPECIFICATION Spec
CONSTANTS
  Nodes <- N4
  TMax = 8
  Modes <- AllModes
  Loops = TRUE
  Bulk = FALSE
  Degenerate = TRUE
  KF <- PinnedKF
INVARIANT InvC01
INVARIANT InvC03
INVARIANT InvC04
INVARIANT InvC05
INVARIANT InvC08
INVARIANT InvRefines
INVARIANT SimPrint
CHECK_DEADLOCK FALSE
