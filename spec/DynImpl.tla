------------------------------ MODULE DynImpl -------------------------------
(***************************************************************************)
(* Implementation-shaped model of DynGraph / DynDiGraph: the state is what  *)
(* the code keeps, every public operation is one pure operator on *graph    *)
(* records* whose body has one disjunct per branch of the code.             *)
(*                                                                          *)
(*   G.dir, G.rem  class and mode                                           *)
(*   G.tl[p]       stored timeline of pair p (sequence of <<a,b>>),         *)
(*                 `_adj[u][v]['t']` / `_succ[u][v]['t']`                   *)
(*   G.ev          event log `time_to_edge` as a set of <<p, op, t>>        *)
(*                 (the order inside one instant is not modelled: no        *)
(*                 property mentions it)                                    *)
(*   G.snap        snapshot index `snapshots`: instant -> counter (the code *)
(*                 counts 2 per interaction and halves on output)           *)
(*   G.nodes       node set;  G.attr  node -> attribute value               *)
(*   G.frozen                                                               *)
(*                                                                          *)
(* Known deviations of the code that an existing test pins are guarded      *)
(* disjuncts, enabled by membership of their id in KF (DESIGN.md 3.5).      *)
(***************************************************************************)
EXTENDS DynSpec

CONSTANT KF          \* set of known-finding ids whose deviant branch is enabled

EmptyG(dir, rem) ==
  [dir |-> dir, rem |-> rem, tl |-> <<>>, ev |-> {}, snap |-> <<>>,
   nodes |-> {}, attr |-> <<>>, frozen |-> FALSE]

Bump(snap, I) ==
  [t \in DOMAIN snap \cup I |->
      (IF t \in DOMAIN snap THEN snap[t] ELSE 0) + (IF t \in I THEN 2 ELSE 0)]

(***************************************************************************)
(* add_interaction(u, v, t, e)                                              *)
(*   MissingT      t omitted: NetworkXError, nothing changes                *)
(*   Reject        t before the start of the pair's last stored interval:   *)
(*                 ValueError, nothing changes (checked before any write)   *)
(*   EmptySpan     e <= t: nothing becomes present, nothing changes         *)
(*   NewPair       first interval, '+' at t, '-' at e when e is given       *)
(*   Contained     span inside the last interval: presence unchanged; when  *)
(*                 the call names the vanishing time of that interval (e-1  *)
(*                 is its end) the '-' event at e is recorded               *)
(*   ExtendOverlap / ExtendAdjacent                                         *)
(*                 last interval grows to end; the '-' that closed it moves *)
(*                 to end+1.  KF1 (pinned by test_stream_interactions): a   *)
(*                 one-instant run that was never closed and is extended by *)
(*                 a call without vanishing time stays unclosed.            *)
(*   AppendRun     gap: new interval, '+' at t, '-' at e when e is given    *)
(* In accumulative mode e is ignored, no '-' is ever written and '+' only   *)
(* for a new pair.  The counter is bumped for every instant that becomes    *)
(* newly stored for the pair.                                               *)
(***************************************************************************)
Add(G, u, v, t, e) ==
  LET p    == Norm(G.dir, u, v)
      hasE == e # NoEnd /\ G.rem
      end  == IF hasE THEN e - 1 ELSE t
      old  == p \in DOMAIN G.tl
      s    == IF old THEN G.tl[p] ELSE <<>>
      k    == Len(s)
  IN
  IF t = NoT THEN [g |-> G, res |-> "NetworkXError", br |-> "MissingT"]
  ELSE IF old /\ t < s[k][1] THEN [g |-> G, res |-> "ValueError", br |-> "Reject"]
  ELSE IF end < t THEN [g |-> G, res |-> "ok", br |-> "EmptySpan"]
  ELSE IF ~old THEN
    [g |-> [G EXCEPT !.nodes = @ \cup {u, v},
                     !.tl   = (p :> << <<t, end>> >>) @@ @,
                     !.ev   = @ \cup {<<p, "+", t>>}
                                \cup (IF hasE THEN {<<p, "-", end + 1>>} ELSE {}),
                     !.snap = Bump(@, t .. end)],
     res |-> "ok", br |-> "NewPair"]
  ELSE LET la == s[k][1]  lb == s[k][2] IN
    IF end <= lb THEN
      \* Contained; a call that names the vanishing time of the last interval records the event
      [g |-> [G EXCEPT !.ev = IF hasE /\ end = lb THEN @ \cup {<<p, "-", end + 1>>} ELSE @],
       res |-> "ok", br |-> "Contained"]
    ELSE IF t <= lb + 1 THEN
      LET closed == <<p, "-", lb + 1>> \in G.ev
          close  == G.rem /\ (hasE \/ closed \/ lb > la \/ "KF1" \notin KF)
          ev1    == G.ev \ {<<p, "-", lb + 1>>}
      IN [g |-> [G EXCEPT !.tl   = (p :> [s EXCEPT ![k] = <<la, end>>]) @@ @,
                          !.ev   = IF close THEN ev1 \cup {<<p, "-", end + 1>>} ELSE ev1,
                          !.snap = Bump(@, (lb + 1) .. end)],
          res |-> "ok",
          br |-> IF t <= lb THEN "ExtendOverlap" ELSE "ExtendAdjacent"]
    ELSE
      [g |-> [G EXCEPT !.tl   = (p :> Append(s, <<t, end>>)) @@ @,
                       !.ev   = @ \cup (IF G.rem THEN {<<p, "+", t>>} ELSE {})
                                  \cup (IF hasE THEN {<<p, "-", end + 1>>} ELSE {}),
                       !.snap = Bump(@, t .. end)],
       res |-> "ok", br |-> "AppendRun"]

\* add_interactions_from and the helpers built on it: a fold that stops at
\* the first failing element (the elements before it stay applied)
RECURSIVE AddMany(_, _, _, _)
AddMany(G, ps, t, e) ==
  IF ps = <<>> THEN [g |-> G, res |-> "ok"]
  ELSE LET r == Add(G, ps[1][1], ps[1][2], t, e) IN
       IF r.res # "ok" THEN [g |-> r.g, res |-> r.res]
       ELSE AddMany(r.g, Tail(ps), t, e)

AddFrom(G, ps, t, e) ==
  IF t = NoT THEN [g |-> G, res |-> "NetworkXError"] ELSE AddMany(G, ps, t, e)

AddNode(G, n, a) == [G EXCEPT !.nodes = @ \cup {n},
                              !.attr = IF a = 0 THEN @ ELSE (n :> a) @@ @]

(***************************************************************************)
(* Observers (the presence test with its envelope shortcut, the stream,     *)
(* the snapshot index).                                                     *)
(***************************************************************************)
HasPair(G, u, v) == Norm(G.dir, u, v) \in DOMAIN G.tl

HasAt(G, u, v, t) ==
  LET p == Norm(G.dir, u, v) IN
  /\ p \in DOMAIN G.tl
  /\ LET s == G.tl[p] IN
     IF G.rem
     THEN /\ s[1][1] <= t /\ t <= s[Len(s)][2]
          /\ \E i \in DOMAIN s : t \in s[i][1] .. s[i][2]
     ELSE s[1][1] <= t /\ t <= MaxOf(DOMAIN G.snap)

Ids(G) == SortedSeq(DOMAIN G.snap)
CountAt(G, t) == IF t \in DOMAIN G.snap THEN <<G.snap[t], 2>> ELSE <<0, 1>>

\* stream_interactions(): events sorted by instant
OpRank(op) == IF op = "+" THEN 0 ELSE 1
EvKey(x) == <<x[3], OpRank(x[2]), x[1][1], x[1][2]>>
LexLess(a, b) == \E i \in DOMAIN a : a[i] < b[i] /\ \A j \in 1 .. (i - 1) : a[j] = b[j]
EvSeq(G) == SetToSortSeq(G.ev, LAMBDA x, y : LexLess(EvKey(x), EvKey(y)))
=============================================================================
