------------------------------- MODULE MCPaths -------------------------------
(***************************************************************************)
(* Design-level check of C12 / C13 / C15 and generator of the graph domain. *)
(* The implementation-shaped model follows temporal_dag (frontier expansion *)
(* over the snapshot ids of the window with expiry of occurrences that have *)
(* no neighbour, the root never expiring) and time_respecting_paths (all    *)
(* paths of the DAG from a source to a target, decoded to hops, minus those *)
(* with an immediate reversal); TLC checks that it returns exactly the      *)
(* declarative path set of module Paths for every graph of the domain and   *)
(* every query.  Each graph of the domain is one initial state.             *)
(***************************************************************************)
EXTENDS Paths

CONSTANTS PNodes, PTMax, PDir, PLoops, PKF,
          PSparse,   \* TRUE: every pair is present at no or exactly one instant (larger node sets stay enumerable)
          PAcc       \* TRUE: accumulative graphs - pg holds the instants of the adds, an interaction is present from its
                     \* first add to the largest snapshot id (C08); the snapshot ids are the instants of the adds

VARIABLE pg      \* the presence relation: set of <<a, b, t>> (ordered pairs)
vars == <<pg>>

PTimes == 0 .. PTMax
BasePairs == IF PDir THEN { <<a, b>> \in PNodes \X PNodes : PLoops \/ a # b }
             ELSE { <<a, b>> \in PNodes \X PNodes : a < b \/ (PLoops /\ a = b) }
Flat3(S) == { <<x[1][1], x[1][2], x[2]>> : x \in S }
Sym3(S) == IF PDir THEN S ELSE S \cup { <<x[2], x[1], x[3]>> : x \in S }
Domain == IF PSparse
          THEN { Sym3({ <<p[1], p[2], f[p]>> : p \in { q \in BasePairs : f[q] >= 0 } })
                   : f \in [BasePairs -> PTimes \cup {0 - 1}] }
          ELSE { Sym3(Flat3(S)) : S \in SUBSET (BasePairs \X PTimes) }

IdsOf(P) == SortedSeq({ x[3] : x \in P })
\* the presence relation of the graph pg stands for
PresOf3(P) ==
  IF ~PAcc \/ P = {} THEN P
  ELSE LET last == MaxOf({ x[3] : x \in P })
           first(a, b) == MinOf({ x[3] : x \in { y \in P : y[1] = a /\ y[2] = b } })
       IN UNION { { <<p[1], p[2], t>> : t \in first(p[1], p[2]) .. last } : p \in { <<x[1], x[2]>> : x \in P } }

(***************************************************************************)
(* temporal_dag                                                             *)
(***************************************************************************)
RootT == 0 - 1000
RECURSIVE DagFold(_, _, _, _, _)
DagFold(P, w, i, st, u) ==
  IF i > Len(w) THEN st
  ELSE
  LET tid     == w[i]
      nbs(a)  == { y[2] : y \in { z \in P : z[1] = a[1] /\ z[3] = tid } }
      isRoot(a) == a[2] = RootT
      tail(a) == IF isRoot(a) THEN <<u, tid>> ELSE a
      edges   == UNION { { <<tail(a), <<n, tid>>>> : n \in nbs(a) } : a \in st.act }
      expired == { a \in st.act : nbs(a) = {} /\ ~isRoot(a) }
      reached == { <<n, tid>> : n \in UNION { nbs(a) : a \in st.act } }
  IN DagFold(P, w, i + 1,
             [act |-> (st.act \ expired) \cup reached,
              edges |-> st.edges \cup edges,
              src |-> st.src \cup (IF nbs(<<u, RootT>>) # {} THEN { <<u, tid>> } ELSE {})], u)

ModelDag(P, ids, u, s, e) ==
  LET w == SelectSeq(ids, LAMBDA x : s <= x /\ x <= e) IN
  DagFold(P, w, 1, [act |-> { <<u, RootT>> }, edges |-> {}, src |-> {}], u)

\* all paths of the DAG starting at a source (sequences of occurrences)
RECURSIVE DagPaths(_, _)
DagPaths(E, F) ==
  IF F = {} THEN {}
  ELSE LET N == UNION { { Append(p, x[2]) : x \in { y \in E : y[1] = p[Len(p)] /\ y[2] \notin ToSet(p) } } : p \in F }   \* simple paths
       IN F \cup DagPaths(E, N)
HopsOf(p) == [i \in 1 .. (Len(p) - 1) |-> <<p[i][1], p[i + 1][1], p[i + 1][2]>>]
PingPong(h) == \E i \in 1 .. (Len(h) - 1) :
                  (h[i + 1][1] = h[i][2] /\ h[i + 1][2] = h[i][1]) \/ h[i + 1][3] = h[i][3]

ModelPaths(P, ids, u, v, s, e) ==
  LET d  == ModelDag(P, ids, u, s, e)
      ps == DagPaths(d.edges, { <<x>> : x \in d.src })
      hs == { HopsOf(p) : p \in { q \in ps : Len(q) >= 2 /\ (v = NoNode \/ q[Len(q)][1] = v) } }
  IN { h \in hs : ~PingPong(h) }

Init == pg \in Domain
Next == UNCHANGED pg
Spec == Init /\ [][Next]_vars

Windows(ids) == { <<s, e>> \in ToSet(ids) \X ToSet(ids) : s <= e }
                  \cup { <<s, e>> \in PTimes \X PTimes : s <= e /\ ValidWindow(ids, s, e) }

\* C13 at design level: the algorithm returns exactly the declarative set
InvPaths ==
  LET ids == IdsOf(pg) IN
  ids # <<>> =>
    \A u \in PNodes : \A v \in PNodes \cup {NoNode} : \A w \in Windows(ids) :
        LET P == PresOf3(pg)
            m == ModelPaths(P, ids, u, v, w[1], w[2])
            a == AllPaths(AtIds(P, ids), ids, u, v, w[1], w[2])
        IN m = a \/ ("KF7" \in PKF /\ KF7_missing(a, m, u))
\* C12 at design level: every element of the declarative set satisfies the statement
InvValid ==
  LET ids == IdsOf(pg) IN
  ids # <<>> =>
    \A u \in PNodes : \A w \in Windows(ids) :
      LET P == PresOf3(pg) IN
      \A h \in AllPaths(AtIds(P, ids), ids, u, NoNode, w[1], w[2]) : ValidPath(P, ids, h, u, NoNode, w[1], w[2])
\* C15 at design level
InvDag ==
  LET ids == IdsOf(pg) IN
  ids # <<>> =>
    \A u \in PNodes : \A w \in Windows(ids) :
      LET P == PresOf3(pg)
          d == ModelDag(P, ids, u, w[1], w[2]) IN
      /\ \A x \in d.edges : x[1][2] < x[2][2] \/ (x[1][2] = x[2][2] /\ x[1] \in d.src)
      /\ \A x \in d.edges : x[1] # x[2] \/ ("KF7" \in PKF /\ x[1] \in d.src)
      /\ \A x \in d.edges : <<x[1][1], x[2][1], x[2][2]>> \in P /\ w[1] <= x[2][2] /\ x[2][2] <= w[2]
      /\ d.src = { <<u, t>> : t \in { x \in ToSet(ids) : w[1] <= x /\ x <= w[2] /\ OutAt(P, u, x) } }
==============================================================================
