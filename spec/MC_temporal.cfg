\* all 1,024 canonical timelines over instants 0..9 x all spans
SPECIFICATION Spec
CONSTANTS
  TM = 9
INVARIANT InvCanonical
INVARIANT InvMerge
CHECK_DEADLOCK FALSE
