------------------------------ MODULE Queries -------------------------------
(***************************************************************************)
(* C02: every snapshot / flattened query is a projection of the one         *)
(* presence relation.                                                       *)
(*                                                                          *)
(* A *query entry* records one call of one query entry point:               *)
(*   e.q    entry point ("interactions", "dn_degree", ...)                  *)
(*   e.t    instant, NoT when omitted                                       *)
(*   e.all  nbunch omitted;  e.nb  the nbunch (may name unknown nodes)      *)
(*   e.n, e.m  node arguments (0 when absent)                               *)
(*   e.k    kind of the returned value: "pairs" | "nodes" | "int" | "bool"  *)
(*          | "degmap" | "rat" | "ints" | "attrs" | "exc" | "shape"         *)
(*   e.v    the value projected on abstract nodes / instants                *)
(* The reference is the *observed* has_interaction table of the same        *)
(* observation (the property is stated relative to has_interaction), the    *)
(* node list of the flattened graph, and for the flattened node set and     *)
(* attributes the reference state R.                                        *)
(***************************************************************************)
EXTENDS Clauses

\* static graph at t: set of ordered pairs (both orders for an undirected pair)
SAt(O, t) == IF t = NoT THEN FlatSet(O)
             ELSE { <<h.u, h.v>> : h \in { x \in HasEntries(O) : t \in ToSet(x.ts) } }
NodesOf(O) == ToSet(O.nodes)

NormSet(dir, P) == { Norm(dir, p[1], p[2]) : p \in P }
Nbrs(S, n)  == { p[2] : p \in { q \in S : q[1] = n } }
Preds(S, n) == { p[1] : p \in { q \in S : q[2] = n } }
PresentNodes(S) == { p[1] : p \in S } \cup { p[2] : p \in S }

\* degree conventions: an undirected self-loop counts once ("number of
\* interactions adjacent", what the code does) or twice (networkx)
DegOnce(dir, S, n)  == IF dir THEN Cardinality(Nbrs(S, n)) + Cardinality(Preds(S, n))
                       ELSE Cardinality(Nbrs(S, n))
DegTwice(dir, S, n) == DegOnce(dir, S, n) + (IF ~dir /\ <<n, n>> \in S THEN 1 ELSE 0)
InDeg(S, n)  == Cardinality(Preds(S, n))
OutDeg(S, n) == Cardinality(Nbrs(S, n))

NB(O, e) == IF e.all THEN NodesOf(O) ELSE ToSet(e.nb) \cap NodesOf(O)

NumInter(dir, S) == Cardinality(NormSet(dir, S))
SelfLoops(S) == { p \in S : p[1] = p[2] }

Base(q) == IF Len(q) > 3 /\ SubSeq(q, 1, 3) = "dn_" THEN SubSeq(q, 4, Len(q)) ELSE q
IterBase(q) == LET b == Base(q) IN
               IF Len(b) > 5 /\ SubSeq(b, Len(b) - 4, Len(b)) = "_iter" THEN SubSeq(b, 1, Len(b) - 5) ELSE b

NoDup(s) == Cardinality(ToSet(s)) = Len(s)

(***************************************************************************)
(* Expected values                                                          *)
(***************************************************************************)
ExpPairs(R, O, e, S) ==
  LET b == IterBase(e.q)  nb == NB(O, e) IN
  CASE b = "interactions"     -> IF R.dir THEN { p \in S : p[1] \in nb }
                                 ELSE NormSet(FALSE, { p \in S : p[1] \in nb \/ p[2] \in nb })
    [] b = "out_interactions" -> { p \in S : p[1] \in nb }
    [] b = "in_interactions"  -> { p \in S : p[2] \in nb }
    [] b = "non_interactions" -> NormSet(FALSE, { p \in NodesOf(O) \X NodesOf(O) : p[1] # p[2] /\ p \notin S })
    [] OTHER -> {}

ExpNodes(R, O, e, S) ==
  LET b == IterBase(e.q) IN
  CASE b = "neighbors"     -> Nbrs(S, e.n)
    [] b = "successors"    -> Nbrs(S, e.n)
    [] b = "predecessors"  -> Preds(S, e.n)
    [] b = "all_neighbors" -> Nbrs(S, e.n) \cup Preds(S, e.n)
    [] b = "non_neighbors" -> NodesOf(O) \ (Nbrs(S, e.n) \cup Preds(S, e.n) \cup {e.n})
    [] b = "nodes"         -> PresentNodes(S)
    [] OTHER -> {}

ExpInt(R, O, e, S) ==
  LET b == IterBase(e.q) IN
  CASE b = "number_of_nodes"           -> IF e.t = NoT THEN Cardinality(NodesOf(O)) ELSE Cardinality(PresentNodes(S))
    [] b = "order"                     -> IF e.t = NoT THEN Cardinality(NodesOf(O)) ELSE Cardinality(PresentNodes(S))
    [] b = "number_of_interactions"    -> NumInter(R.dir, S)
    [] b = "size"                      -> NumInter(R.dir, S)
    [] b = "number_of_interactions_uv" -> IF <<e.n, e.m>> \in S THEN 1 ELSE 0
    [] b = "in_degree1"                -> InDeg(S, e.n)
    [] b = "out_degree1"               -> OutDeg(S, e.n)
    [] OTHER -> -1

\* density of the static graph (networkx formula)
ExpDensity(R, O, e, S) ==
  LET n == IF e.t = NoT THEN Cardinality(NodesOf(O)) ELSE Cardinality(PresentNodes(S))
      m == NumInter(R.dir, S)
  IN IF m = 0 \/ n <= 1 THEN <<0, 1>>
     ELSE <<(IF R.dir THEN 1 ELSE 2) * m, n * (n - 1)>>

RECURSIVE HistOf(_, _, _)
HistOf(degs, d, maxd) == IF d > maxd THEN <<>>
                         ELSE <<Cardinality({ n \in DOMAIN degs : degs[n] = d })>> \o HistOf(degs, d + 1, maxd)
Hist(degs) == IF DOMAIN degs = {} THEN <<>>
              ELSE HistOf(degs, 0, MaxOf({ degs[n] : n \in DOMAIN degs }))

(***************************************************************************)
(* One entry: "ok" | "fail" | "KFn"                                         *)
(***************************************************************************)
\* KF2 (pinned by test_functions_directed): DynDiGraph.interactions() and
\* the helpers built on it omit v->u when u->v was listed before it
KF2_explains(R, O, e, got, exp) ==
  /\ R.dir /\ IterBase(e.q) = "interactions"
  /\ got \subseteq exp
  /\ \A p \in exp \ got : <<p[2], p[1]>> \in got /\ p[1] # p[2]
\* KF4 (pinned by test_conversion): DynGraph.size() = int(sum(degree)/2)
\* counts a self-loop as half an interaction
KF4_value(S) == LET l == Cardinality(SelfLoops(S)) IN
                ((Cardinality(S) - l) \div 2) + (l \div 2)
KF4_explains(R, O, e, S) ==
  /\ ~R.dir /\ IterBase(e.q) \in {"number_of_interactions", "size"}
  /\ SelfLoops(S) # {}
  /\ e.v = KF4_value(S)
\* KF6 (pinned by test_functions): dn.density(G, t) passes t as a node and is
\* always 0 when t is given
KF6_explains(R, O, e) == e.q = "dn_density" /\ e.t # NoT /\ e.k = "rat" /\ e.v[1] = 0
\* density is computed from size(): on an undirected graph with self-loops
\* the halved count of KF4 shows through
KF4_density(R, O, e, S) ==
  LET n == Cardinality(NodesOf(O))  m == KF4_value(S) IN
  /\ ~R.dir /\ e.q = "dn_density" /\ e.t = NoT /\ SelfLoops(S) # {} /\ e.k = "rat"
  /\ RatEq(e.v, IF m = 0 \/ n <= 1 THEN <<0, 1>> ELSE <<2 * m, n * (n - 1)>>)

EntryStatus(R, O, e, S) ==
  LET b == IterBase(e.q) IN
  CASE e.k = "exc" \/ e.k = "shape" -> "fail"
    [] e.k = "pairs" ->
         LET got == IF R.dir /\ b # "non_interactions" THEN ToSet(e.v) ELSE NormSet(FALSE, ToSet(e.v))
             exp == ExpPairs(R, O, e, S)
         IN IF b = "non_interactions" /\ R.dir
            THEN \* directed: only soundness is stated (no u->v among the returned pairs)
                 St(\A p \in ToSet(e.v) : p \notin S /\ p[1] # p[2])
            ELSE IF got = exp /\ Cardinality(got) = Len(e.v) THEN "ok"
            ELSE IF KF2_explains(R, O, e, got, exp) /\ Cardinality(got) = Len(e.v) THEN "KF2"
            ELSE "fail"
    [] e.k = "nodes" ->
         IF b = "nodes" /\ e.t = NoT
         THEN St(R.nodes \subseteq ToSet(e.v) /\ ToSet(e.v) \subseteq R.nodes \cup R.maybe /\ NoDup(e.v))
         ELSE IF b = "non_neighbors" /\ R.dir
         THEN \* networkx reads "neighbours" of a directed node as its successors, dynetx as successors and
              \* predecessors: the statement does not choose
              St(NoDup(e.v) /\ (\/ ToSet(e.v) = NodesOf(O) \ (Nbrs(S, e.n) \cup Preds(S, e.n) \cup {e.n})
                                 \/ ToSet(e.v) = NodesOf(O) \ (Nbrs(S, e.n) \cup {e.n})))
         ELSE St(ToSet(e.v) = ExpNodes(R, O, e, S) /\ (b = "all_neighbors" \/ NoDup(e.v)))
    [] e.k = "attrs" /\ b = "get_node_attributes" ->
         \* dn.get_node_attributes(G, name): exactly the nodes that carry the attribute, with its value
         St(/\ NoDup(e.v)
            /\ ToSet(e.v) = { <<n, AttrOf(R, n)>> : n \in { m \in R.nodes \cup R.maybe : AttrOf(R, m) # 0 } })
    [] e.k = "attrs" -> St(/\ NoDup(e.v)
                           /\ \A x \in ToSet(e.v) : x[2] = AttrOf(R, x[1])
                           /\ IF e.t = NoT THEN /\ R.nodes \subseteq { x[1] : x \in ToSet(e.v) }
                                                /\ { x[1] : x \in ToSet(e.v) } \subseteq R.nodes \cup R.maybe
                              ELSE { x[1] : x \in ToSet(e.v) } = PresentNodes(S))
    [] e.k = "int" ->
         IF b = "degree1"
         THEN St(e.v = DegOnce(R.dir, S, e.n) \/ e.v = DegTwice(R.dir, S, e.n))
         ELSE IF e.v = ExpInt(R, O, e, S) THEN "ok"
         ELSE IF KF4_explains(R, O, e, S) THEN "KF4" ELSE "fail"
    [] e.k = "bool" ->
         CASE b = "has_node" -> St(e.v = (IF e.t = NoT THEN e.n \in NodesOf(O) ELSE e.n \in PresentNodes(S)))
           [] b = "is_empty" -> St(e.v = (FlatSet(O) = {}))
           [] b = "has_successor"   -> St(e.v = (<<e.n, e.m>> \in S))
           [] b = "has_predecessor" -> St(e.v = (<<e.m, e.n>> \in S))
           [] OTHER -> "fail"
    [] e.k = "degmap" ->
         LET keys == { x[1] : x \in ToSet(e.v) }
             val(n) == (CHOOSE x \in ToSet(e.v) : x[1] = n)[2]
         IN St(/\ keys = NB(O, e) /\ NoDup([i \in DOMAIN e.v |-> e.v[i][1]])
               /\ CASE b = "degree"     -> \/ \A n \in keys : val(n) = DegOnce(R.dir, S, n)
                                           \/ \A n \in keys : val(n) = DegTwice(R.dir, S, n)
                    [] b = "in_degree"  -> \A n \in keys : val(n) = InDeg(S, n)
                    [] b = "out_degree" -> \A n \in keys : val(n) = OutDeg(S, n)
                    [] OTHER -> FALSE)
    [] e.k = "rat" ->
         IF e.v[2] > 0 /\ RatEq(e.v, ExpDensity(R, O, e, S)) THEN "ok"
         ELSE IF KF6_explains(R, O, e) THEN "KF6"
         ELSE IF KF4_density(R, O, e, S) THEN "KF4" ELSE "fail"
    [] e.k = "ints" ->
         CASE b = "degree_histogram" ->
                St(\/ e.v = Hist([n \in NodesOf(O) |-> DegOnce(R.dir, S, n)])
                   \/ e.v = Hist([n \in NodesOf(O) |-> DegTwice(R.dir, S, n)]))
           [] b = "get_node_snapshots" ->
                St(e.v = SortedSeq({ t \in IdSet(O) : e.n \in PresentNodes(SAt(O, t)) }))
           [] OTHER -> "fail"
    [] OTHER -> "fail"

\* table of one battery: {<<"C02_<entry point>", status>>}, worst status per
\* entry point ("fail" beats "KFn" beats "ok")
Worst(S) == IF "fail" \in S THEN "fail"
            ELSE IF S \ {"ok"} # {} THEN CHOOSE x \in S \ {"ok"} : TRUE ELSE "ok"
C02_Table(R, O, Q) ==
  \* (entries are indexed, never collected in a set: their values have different types)
  LET names == { Q[i].q : i \in DOMAIN Q }
      SF    == [t \in { Q[i].t : i \in DOMAIN Q } |-> SAt(O, t)]
      stat  == [i \in DOMAIN Q |-> EntryStatus(R, O, Q[i], SF[Q[i].t])]
  IN
  { <<"C02_" \o nm, Worst({ stat[i] : i \in { j \in DOMAIN Q : Q[j].q = nm } })>> : nm \in names }
     \cup { <<"C02_x_observers", St(NoErr(O, {"has:", "flat:", "nodes:", "ids:"}))>> }
=============================================================================
