----------------------------- MODULE ParsersSpec -----------------------------
(***************************************************************************)
(* C18 (readers skip noise; timestamp compaction), C09_c (four-column       *)
(* snapshot rows), C10_d (the reading of an event log).                     *)
(*                                                                          *)
(* An abstract *line* of an edge-list file is                               *)
(*     [toks |-> <<tok, ...>>, com |-> BOOLEAN, ws |-> BOOLEAN]             *)
(* toks: the fields before the comment marker, each <<"i", n>> (a field     *)
(* that converts to the integer n) or <<"s", str>> ("+", "-", or a field    *)
(* that does not convert); com: a comment follows; ws: padded with          *)
(* whitespace.  The harness renders lines to text with a delimiter and      *)
(* feeds them to the real parse_snapshots / parse_interactions (nodetype =  *)
(* timestamptype = int).                                                    *)
(***************************************************************************)
EXTENDS Derived

IsI(tok) == tok[1] = "i"

\* which lines are data rows (the others are skipped)
IsData(l, parser) == IF parser = "snapshots" THEN Len(l.toks) >= 3 ELSE Len(l.toks) = 4
Clean(lines, parser) ==
  LET idx == SelectSeq([i \in DOMAIN lines |-> i], LAMBDA i : IsData(lines[i], parser))
  IN [k \in DOMAIN idx |-> [toks |-> lines[idx[k]].toks, com |-> FALSE, ws |-> FALSE]]

(***************************************************************************)
(* Reference reading of a file: fold over the data rows.                    *)
(*   snapshots    'u v t'   -> interaction present at t                     *)
(*                'u v t e' -> present at t .. e-1         (C09_c)          *)
(*   interactions 'u v + t' -> appears at t                                 *)
(*                'u v - t' -> vanishes at t: present from its latest       *)
(*                             appearance through t-1      (C10_d)          *)
(* A field that does not convert raises TypeError; a row the documented     *)
(* order rule rejects raises ValueError; the result is the exception kind   *)
(* of the first such row, else "ok" and the reference state.                *)
(* La[p] = latest appearance of pair p (interaction lists).                 *)
(***************************************************************************)
RECURSIVE ParseRef(_, _, _, _, _)
ParseRef(R, La, lines, parser, i) ==
  IF i > Len(lines) THEN [r |-> R, res |-> "ok"]
  ELSE IF ~IsData(lines[i], parser) THEN ParseRef(R, La, lines, parser, i + 1)
  ELSE
  LET s == lines[i].toks IN
  IF parser = "snapshots" THEN
    IF ~IsI(s[1]) \/ ~IsI(s[2]) \/ ~IsI(s[3]) \/ (Len(s) >= 4 /\ ~IsI(s[4]))
    THEN [r |-> R, res |-> "TypeError"]
    ELSE LET u == s[1][2]  v == s[2][2]  t == s[3][2]
             e == IF Len(s) >= 4 THEN s[4][2] ELSE NoEnd
             x == RefExpect(R, u, v, t, e)
         IN IF x # "ok" THEN [r |-> R, res |-> x]
            ELSE ParseRef(RefAdd(R, u, v, t, e), La, lines, parser, i + 1)
  ELSE
    IF ~IsI(s[1]) \/ ~IsI(s[2]) \/ ~IsI(s[4])
    THEN [r |-> R, res |-> "TypeError"]
    ELSE LET u == s[1][2]  v == s[2][2]  t == s[4][2]
             p == Norm(R.dir, u, v)
         IN IF ~IsI(s[3]) /\ s[3][2] = "+"
            THEN LET x == RefExpect(R, u, v, t, NoEnd) IN
                 IF x # "ok" THEN [r |-> R, res |-> x]
                 ELSE ParseRef(RefAdd(R, u, v, t, NoEnd), (p :> t) @@ La, lines, parser, i + 1)
            ELSE IF p \notin DOMAIN La THEN [r |-> R, res |-> "KeyError"]   \* not a well-formed log
                 ELSE ParseRef(IF t > La[p] THEN RefAdd(R, u, v, La[p], t) ELSE R, La, lines, parser, i + 1)

WellFormedLog(lines, dir) ==
  ParseRef(EmptyRef(dir, TRUE), <<>>, lines, "interactions", 1).res # "KeyError"

HasFour(lines) == \E i \in DOMAIN lines : Len(lines[i].toks) >= 4

(***************************************************************************)
(* Clauses for a logged "parse" line:                                       *)
(*   line.parser, line.dir, line.lines  the abstract file                   *)
(*   line.res / line.obs     result and graph of the noisy input            *)
(*   line.cres / line.cobs   result and graph of its clean rows alone       *)
(***************************************************************************)
ParseTable(line) ==
  LET ref  == ParseRef(EmptyRef(line.dir, TRUE), <<>>, line.lines, line.parser, 1)
      okk  == line.res = "ok"
      same == /\ line.res = line.cres
              /\ okk => /\ Triples(line.obs) = Triples(line.cobs)
                        /\ line.obs.raw = line.cobs.raw
      pres == okk => /\ \A h \in HasEntries(line.obs) :
                           ToSet(h.ts) = AddedOf(ref.r, Norm(line.dir, h.u, h.v)) \cap Grid(line.obs)
                     /\ NodesOf(line.obs) = ref.r.nodes
      RH   == SelfRef(line.dir, line.obs, NodesOf(line.obs), <<>>)
      TH   == UNION { { <<"KF1", p, r[1]>> : r \in { q \in RunsOf(RH.added[p]) : q[2] = q[1] + 1 } } : p \in DOMAIN RH.added }
  IN
  { <<"C18_a_noise_is_skipped", St(same)>>,
    <<"C18_b_result_kind", St(line.res = ref.res)>>,
    <<"C18_e_class", St(okk => line.hdir = line.dir)>> }
  \cup (IF line.parser = "snapshots"
        THEN { <<IF HasFour(line.lines) THEN "C09_c_four_column_rows" ELSE "C18_c_rows_read", St(pres)>> }
        ELSE { <<"C10_d_log_reading", St(pres)>> })
  \cup (IF okk THEN { <<"C18_H_" \o x[1], x[2]>> : x \in CoreTable(RH, line.obs, TH) } ELSE {})

(***************************************************************************)
(* compact_timeslot: the logged mapping << <<value, rank>>, ... >> of a set *)
(* of distinct timestamps is a strictly increasing bijection onto 0..k-1    *)
(***************************************************************************)
RankOf(S, x) == Cardinality({ y \in S : y < x })
CompactTable(line) ==
  LET S == ToSet(line.vals)  M == ToSet(line.map) IN
  { <<"C18_f_compaction_is_rank_map",
      St(/\ line.res = "ok"
         /\ { m[1] : m \in M } = S
         /\ Cardinality(M) = Cardinality(S)
         /\ \A m \in M : m[2] = RankOf(S, m[1]))>> }

\* keys=True: the graph read is the one described by the same rows with each
\* timestamp replaced by its rank among the distinct timestamps of the file
FileStamps(lines, parser) ==
  UNION { LET s == lines[i].toks IN
          IF parser = "snapshots"
          THEN {s[3][2]} \cup (IF Len(s) >= 4 THEN {s[4][2]} ELSE {})
          ELSE {s[4][2]}
          : i \in DOMAIN lines }
Ranked(lines, parser) ==
  LET S == FileStamps(lines, parser)
      rk(tok) == <<"i", RankOf(S, tok[2])>>
  IN [i \in DOMAIN lines |->
        [lines[i] EXCEPT !.toks =
           IF parser = "snapshots"
           THEN [k \in DOMAIN @ |-> IF k \in {3, 4} THEN rk(@[k]) ELSE @[k]]
           ELSE [k \in DOMAIN @ |-> IF k = 4 THEN rk(@[k]) ELSE @[k]]]]
KeysTable(line) ==
  LET ref == ParseRef(EmptyRef(line.dir, TRUE), <<>>, Ranked(line.lines, line.parser), line.parser, 1) IN
  { <<"C18_g_keys_result_kind", St(line.res = ref.res)>>,
    <<"C18_h_keys_graph_is_ranked_rows",
      St(line.res = "ok" =>
           \A h \in HasEntries(line.obs) :
              ToSet(h.ts) = AddedOf(ref.r, Norm(line.dir, h.u, h.v)) \cap Grid(line.obs))>> }
=============================================================================
