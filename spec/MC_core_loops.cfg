\* 2 nodes with self-loops (3 undirected pairs / 4 directed pairs), instants
\* 0..1, no empty spans, no bulk helpers
SPECIFICATION Spec
CONSTANTS
  Nodes <- N2
  TMax = 1
  Modes <- AllModes
  Loops = TRUE
  Bulk = FALSE
  Degenerate = FALSE
  KF <- PinnedKF
VIEW view
INVARIANT InvC01
INVARIANT InvC03
INVARIANT InvC04
INVARIANT InvC05
INVARIANT InvC08
INVARIANT InvC01c
INVARIANT InvC07
INVARIANT InvRefines
CHECK_DEADLOCK FALSE
