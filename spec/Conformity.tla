----------------------------- MODULE Conformity ------------------------------
(***************************************************************************)
(* C20: delta-conformity is bounded, relabelling-invariant and consistent   *)
(* when sliding.  The numeric value in general is not recomputed here (real *)
(* exponents; the statement does not fix it).  Scores are logged scaled by  *)
(* 10^6 and rounded; two scores agree when they differ by at most Tol.      *)
(*                                                                          *)
(* A "conf" line: obs (the labelled graph G), and entries es, each          *)
(*   [start, delta, ptype, res ("ok" | "none" | exception),                 *)
(*    sc    << <<alpha100, n, val>>, ... >>   the scores (one profile)      *)
(*    rv    same after renaming the label values                            *)
(*    rn    same after renaming the node ids (mapped back)                  *)
(*    one   same with all nodes sharing one label ]                         *)
(* and slides ss, each [delta, ptype, res, sl << <<alpha100,n,stamp,val>> >>,*)
(*   per << [t, res, sc], ... >>  (delta_conformity(G,t,delta) for each id)]*)
(***************************************************************************)
EXTENDS Guard

Tol == 2
Scale == 1000000
Close(a, b) == a - b <= Tol /\ b - a <= Tol

Keys(sc, a) == { x[2] : x \in { y \in ToSet(sc) : y[1] = a } }
Alphas(sc)  == { x[1] : x \in ToSet(sc) }
SameScores(s1, s2) ==
  /\ { <<x[1], x[2]>> : x \in ToSet(s1) } = { <<x[1], x[2]>> : x \in ToSet(s2) }
  /\ Len(s1) = Len(s2)
  /\ \A x \in ToSet(s1) : \E y \in ToSet(s2) : y[1] = x[1] /\ y[2] = x[2] /\ Close(x[3], y[3])

\* the slice [s, s+delta] of the observed presence
SliceP(O, s, d) == { x \in Triples(O) : s <= x[3] /\ x[3] <= s + d }
SliceIds(O, s, d) == SelectSeq(O.ids, LAMBDA t : s <= t /\ t <= s + d)
NodesPresentAt(P, t) == { x[1] : x \in { y \in P : y[3] = t } } \cup { x[2] : x \in { y \in P : y[3] = t } }
\* n reaches another node inside the slice (paths leave at the first snapshot of the slice)
Reaches(O, s, d, n) ==
  LET P == SliceP(O, s, d)  ids == SliceIds(O, s, d) IN
  \E h \in AllFrom(P, ids, n, ids[1], ids[Len(ids)]) : h[Len(h)][2] # n

ConfEntryTable(O, e) ==
  LET ids == SliceIds(O, e.start, e.delta)
      P   == SliceP(O, e.start, e.delta)
  IN
  IF ids = <<>> THEN { <<"C20_a_none_iff_empty_window", St(e.res = "none")>> }
  ELSE IF e.res # "ok" THEN { <<"C20_a_none_iff_empty_window", St(FALSE)>> }
  ELSE
  { <<"C20_a_none_iff_empty_window", "ok">>,
    <<"C20_b_keys_are_nodes_present_at_start",
      St(\A a \in ToSet(e.alphas) : Keys(e.sc, a) = NodesPresentAt(P, e.start) /\ Len(e.sc) = Cardinality(ToSet(e.alphas)) * Cardinality(NodesPresentAt(P, e.start)))>>,
    <<"C20_c_scores_in_unit_range", St(\A x \in ToSet(e.sc) : 0 - Scale - Tol <= x[3] /\ x[3] <= Scale + Tol)>>,
    <<"C20_d_invariant_under_value_renaming", St(SameScores(e.sc, e.rv))>>,
    <<"C20_d_invariant_under_node_renaming", St(SameScores(e.sc, e.rn))>>,
    <<"C20_e_one_label_gives_one_or_zero",
      St(\A x \in ToSet(e.one) : Close(x[3], IF Reaches(O, e.start, e.delta, x[2]) THEN Scale ELSE 0))>> }

SlideTable(O, s) ==
  IF s.res # "ok" THEN { <<"C20_f_sliding_no_exception", "fail">> }
  ELSE
  LET last == O.ids[Len(O.ids)]
      want == UNION { IF s.per[i].res = "ok" /\ s.per[i].t + s.delta < last
                      THEN { <<x[1], x[2], s.per[i].t + s.delta, x[3]>> : x \in ToSet(s.per[i].sc) }
                      ELSE {} : i \in DOMAIN s.per }
      got  == ToSet(s.sl)
  IN { <<"C20_f_sliding_equals_pointwise",
         St(/\ \A x \in got : \E y \in want : y[1] = x[1] /\ y[2] = x[2] /\ y[3] = x[3] /\ Close(x[4], y[4])
            /\ \A y \in want : \E x \in got : y[1] = x[1] /\ y[2] = x[2] /\ y[3] = x[3] /\ Close(x[4], y[4])
            /\ Len(s.sl) = Cardinality(want))>> }

ConfTable(O, es, ss) ==
  UNION { NotOk(ConfEntryTable(O, es[i])) : i \in DOMAIN es }
    \cup (IF O.ids = <<>> THEN {} ELSE UNION { NotOk(SlideTable(O, ss[i])) : i \in DOMAIN ss })
=============================================================================
