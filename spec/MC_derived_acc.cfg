\* conversions of removal-enabled AND accumulative sources (KF8): 2 nodes without self-loops, instants 0..2

SPECIFICATION Spec
CONSTANTS
  Nodes <- NN2
  TMax = 2
  Modes <- AllModes
  Loops = FALSE
  Bulk = FALSE
  Degenerate = FALSE
  KF <- PinnedKF
VIEW view
INVARIANT InvConvert
CHECK_DEADLOCK FALSE
