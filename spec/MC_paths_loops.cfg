\* undirected, 2 nodes with self-loops, instants 0..2: 512 graphs (known finding KF7 enabled)
SPECIFICATION Spec
CONSTANTS
  PNodes <- PN2
  PTMax = 2
  PDir = FALSE
  PLoops = TRUE
  PKF <- PathKF
  PAcc = FALSE
  PSparse = FALSE
INVARIANT InvPaths
INVARIANT InvValid
INVARIANT InvDag
CHECK_DEADLOCK FALSE
