------------------------------ MODULE MCParsers ------------------------------
(***************************************************************************)
(* Design-level check of C18 / C09_c / C10_d, and generator of the line     *)
(* sequences fed to the real parsers.                                       *)
(* MParse is the implementation-shaped parser: strip the comment, skip the  *)
(* line when too few fields remain, convert the fields (TypeError), then    *)
(* fold add_interaction of the model (DynImpl) over the rows; a '-' row     *)
(* extends the pair's last stored interval up to t-1.                       *)
(* Every element of the domain is one initial state `case`; TLC checks the  *)
(* invariants on each and dumps them for the harness.                       *)
(***************************************************************************)
EXTENDS DynImpl, ParsersSpec

CONSTANTS MaxLen, Parser, Dir

VARIABLE case
vars == <<case>>

TI(n) == <<"i", n>>
TS(x) == <<"s", x>>
TL(toks, com, ws) == [toks |-> toks, com |-> com, ws |-> ws]

SnapPool ==
  { TL(<<TI(1), TI(2), TI(0)>>, FALSE, FALSE), TL(<<TI(1), TI(2), TI(1)>>, FALSE, TRUE),
    TL(<<TI(2), TI(1), TI(2)>>, TRUE, FALSE),  TL(<<TI(1), TI(2), TI(4)>>, FALSE, FALSE),
    TL(<<TI(1), TI(2), TI(0), TI(2)>>, FALSE, FALSE), TL(<<TI(1), TI(2), TI(1), TI(4)>>, TRUE, TRUE),
    TL(<<TI(2), TI(2), TI(1), TI(1)>>, FALSE, FALSE),                 \* empty span
    TL(<<TI(1), TI(2), TI(2), TI(3), TI(9)>>, FALSE, FALSE),           \* extra column
    TL(<<>>, FALSE, FALSE), TL(<<>>, FALSE, TRUE), TL(<<>>, TRUE, FALSE), TL(<<>>, TRUE, TRUE),
    TL(<<TI(1), TI(2)>>, FALSE, FALSE), TL(<<TI(7)>>, TRUE, FALSE),   \* short rows
    TL(<<TS("x"), TI(2), TI(0)>>, FALSE, FALSE), TL(<<TI(1), TI(2), TS("x")>>, FALSE, FALSE),
    TL(<<TI(1), TI(2), TI(1), TS("y")>>, FALSE, FALSE) }

InterPool ==
  { TL(<<TI(1), TI(2), TS("+"), TI(0)>>, FALSE, FALSE), TL(<<TI(1), TI(2), TS("+"), TI(1)>>, FALSE, TRUE),
    TL(<<TI(2), TI(1), TS("+"), TI(3)>>, TRUE, FALSE),  TL(<<TI(1), TI(2), TS("-"), TI(2)>>, FALSE, FALSE),
    TL(<<TI(1), TI(2), TS("-"), TI(1)>>, FALSE, FALSE), TL(<<TI(1), TI(2), TS("-"), TI(5)>>, TRUE, TRUE),
    TL(<<TI(2), TI(1), TS("-"), TI(4)>>, FALSE, FALSE), TL(<<TI(2), TI(2), TS("+"), TI(1)>>, FALSE, FALSE),
    TL(<<>>, FALSE, FALSE), TL(<<>>, FALSE, TRUE), TL(<<>>, TRUE, FALSE),
    TL(<<TI(1), TI(2), TS("+")>>, FALSE, FALSE),                      \* short
    TL(<<TI(1), TI(2), TS("+"), TI(1), TI(9)>>, FALSE, FALSE),          \* extra column: skipped
    TL(<<TI(1), TI(2), TI(0)>>, TRUE, FALSE),
    TL(<<TS("x"), TI(2), TS("+"), TI(0)>>, FALSE, FALSE), TL(<<TI(1), TI(2), TS("+"), TS("x")>>, FALSE, FALSE) }

Pool == IF Parser = "snapshots" THEN SnapPool ELSE InterPool

RECURSIVE SeqsUpTo(_)
SeqsUpTo(n) == IF n = 0 THEN { <<>> }
               ELSE LET P == SeqsUpTo(n - 1) IN P \cup { Append(s, x) : s \in { q \in P : Len(q) = n - 1 }, x \in Pool }

Domain == { s \in SeqsUpTo(MaxLen) :
              s # <<>> /\ (Parser = "snapshots" \/ \A d \in Dir : WellFormedLog(s, d)) }

(***************************************************************************)
(* implementation-shaped parser over the model graph                        *)
(***************************************************************************)
RECURSIVE MParse(_, _, _, _)
MParse(G, lines, parser, i) ==
  IF i > Len(lines) THEN [g |-> G, res |-> "ok"]
  ELSE
  LET s == lines[i].toks IN        \* text after the comment marker is already gone
  IF parser = "snapshots" THEN
    IF Len(s) < 3 THEN MParse(G, lines, parser, i + 1)
    ELSE IF ~IsI(s[1]) \/ ~IsI(s[2]) THEN [g |-> G, res |-> "TypeError"]
    ELSE IF ~IsI(s[3]) \/ (Len(s) > 3 /\ ~IsI(s[4])) THEN [g |-> G, res |-> "TypeError"]
    ELSE LET a == Add(G, s[1][2], s[2][2], s[3][2], IF Len(s) > 3 THEN s[4][2] ELSE NoEnd) IN
         IF a.res # "ok" THEN [g |-> a.g, res |-> a.res] ELSE MParse(a.g, lines, parser, i + 1)
  ELSE
    IF Len(s) # 4 THEN MParse(G, lines, parser, i + 1)
    ELSE IF ~IsI(s[1]) \/ ~IsI(s[2]) THEN [g |-> G, res |-> "TypeError"]
    ELSE IF ~IsI(s[4]) THEN [g |-> G, res |-> "TypeError"]
    ELSE LET u == s[1][2]  v == s[2][2]  t == s[4][2]  p == Norm(G.dir, u, v) IN
         IF ~IsI(s[3]) /\ s[3][2] = "+"
         THEN LET a == Add(G, u, v, t, NoEnd) IN
              IF a.res # "ok" THEN [g |-> a.g, res |-> a.res] ELSE MParse(a.g, lines, parser, i + 1)
         ELSE IF p \notin DOMAIN G.tl THEN [g |-> G, res |-> "KeyError"]
              ELSE LET tl == G.tl[p]  lb == tl[Len(tl)][2] IN
                   IF lb < t THEN LET a == Add(G, u, v, lb, t) IN MParse(a.g, lines, parser, i + 1)
                   ELSE MParse(G, lines, parser, i + 1)

Init == case \in Domain
Next == UNCHANGED case
Spec == Init /\ [][Next]_vars

PresOfModel(g) == [p \in DOMAIN g.tl |-> PresOf(g.tl[p])]

\* the model parser agrees with the reference reading, for both classes
InvReading == \A d \in Dir :
  LET m == MParse(EmptyG(d, TRUE), case, Parser, 1)
      r == ParseRef(EmptyRef(d, TRUE), <<>>, case, Parser, 1)
  IN /\ m.res = r.res
     /\ m.res = "ok" => PresOfModel(m.g) = r.r.added
\* noise is skipped: same result as parsing the clean rows alone
InvNoise == \A d \in Dir :
  LET m == MParse(EmptyG(d, TRUE), case, Parser, 1)
      c == MParse(EmptyG(d, TRUE), Clean(case, Parser), Parser, 1)
  IN m.res = c.res /\ (m.res = "ok" => m.g = c.g)
\* the rank map of compact_timeslot is a strictly increasing bijection onto 0..k-1
InvRank == \A S \in SUBSET FileStamps(case, Parser) \cup { FileStamps(case, Parser) } :
  LET f == [x \in S |-> RankOf(S, x)] IN
  /\ { f[x] : x \in S } = 0 .. (Cardinality(S) - 1)
  /\ \A x, y \in S : x < y => f[x] < f[y]
==============================================================================
