----------------------------- MODULE MCTemporal ------------------------------
(***************************************************************************)
(* The per-pair lemma behind C01 / C03, checked exhaustively by TLC on a    *)
(* bounded domain: for every canonical timeline s over 0..TM and every span *)
(* a..b that the documented rule does not reject, Merge(s,a,b) is canonical,*)
(* its presence is the union, and it is the canonical timeline of the union *)
(* (Temporal!MergeLemma).  Also: RunsSeq is the inverse of PresOf on        *)
(* canonical timelines.                                                     *)
(***************************************************************************)
EXTENDS Temporal, TLC

CONSTANT TM
VARIABLE tl
vars == <<tl>>

T == 0 .. TM
\* every canonical timeline = RunsSeq of a subset of T
Init == tl \in { RunsSeq(S) : S \in SUBSET T }
Next == UNCHANGED tl
Spec == Init /\ [][Next]_vars

InvCanonical == Canonical(tl) /\ RunsSeq(PresOf(tl)) = tl
InvMerge == \A a \in T : \A b \in a .. (TM + 1) : MergeLemma(tl, a, b)
==============================================================================
