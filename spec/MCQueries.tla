----------------------------- MODULE MCQueries ------------------------------
(***************************************************************************)
(* Design-level check of C02: implementation-shaped models of the query     *)
(* entry points (the `seen` de-duplication of interactions_iter, degree as  *)
(* a count of present neighbours, size = sum(degree)/2, number_of_nodes(t)  *)
(* = nodes of positive degree, density through size) produce query entries  *)
(* of the same shape as the harness; the C02 clauses (module Queries) are   *)
(* invariants over every reachable state of MCCore.                         *)
(* The iteration order of the adjacency dictionaries is modelled as the     *)
(* ascending order of the node ids.                                         *)
(***************************************************************************)
EXTENDS MCCore, Queries

Pres(g, u, v, t) == IF t = NoT THEN HasPair(g, u, v) ELSE HasAt(g, u, v, t)
MNbrs(g, n, t)  == { v \in g.nodes : Pres(g, n, v, t) }
MPreds(g, n, t) == { v \in g.nodes : Pres(g, v, n, t) }

\* interactions_iter(nbunch, t): `seen` holds the nbunch nodes iterated so far
MInter(g, nbn, t) ==
  IF g.dir
  THEN { <<n, v>> \in nbn \X g.nodes :
           Pres(g, n, v, t) /\ ~(v \in nbn /\ v < n /\ Pres(g, v, n, t)
                                 /\ "KF2" \in KF) }
  ELSE { <<n, v>> \in nbn \X g.nodes : Pres(g, n, v, t) /\ ~(v \in nbn /\ v < n) }

MDeg(g, n, t) == IF g.dir THEN Cardinality(MNbrs(g, n, t)) + Cardinality(MPreds(g, n, t))
                 ELSE Cardinality(MNbrs(g, n, t))
RECURSIVE SumDeg(_, _, _)
SumDeg(g, S, t) == IF S = {} THEN 0
                   ELSE LET n == CHOOSE x \in S : TRUE IN MDeg(g, n, t) + SumDeg(g, S \ {n}, t)
\* size(): DynGraph halves the degree sum (KF4: a self-loop counts 1 in the
\* degree); DynDiGraph's in+out degree sum is exact
MSize(g, t) ==
  IF g.dir \/ "KF4" \in KF THEN SumDeg(g, g.nodes, t) \div 2
  ELSE Cardinality({ Norm(FALSE, p[1], p[2]) : p \in { q \in g.nodes \X g.nodes : Pres(g, q[1], q[2], t) } })
MNodesAt(g, t) == IF t = NoT THEN g.nodes ELSE { n \in g.nodes : MDeg(g, n, t) > 0 }
MDensity(g, t) ==
  IF t # NoT /\ "KF6" \in KF THEN <<0, 1>>
  ELSE LET n == Cardinality(MNodesAt(g, t))  m == MSize(g, t) IN
       IF m = 0 \/ n <= 1 THEN <<0, 1>>
       ELSE <<(IF g.dir THEN 1 ELSE 2) * m, n * (n - 1)>>

Ent(q, t, all, nb, n, m, k, v) ==
  [q |-> q, t |-> t, all |-> all, nb |-> nb, n |-> n, m |-> m, k |-> k, v |-> v]

Unknown == 99
NBunches(g) == { <<TRUE, <<>>>> } \cup { <<FALSE, <<n>>>> : n \in g.nodes }
                 \cup { <<FALSE, <<n, Unknown>>>> : n \in g.nodes } \cup { <<FALSE, <<Unknown>>>>, <<FALSE, <<>>>> }
NbNodes(g, b) == IF b[1] THEN g.nodes ELSE ToSet(b[2]) \cap g.nodes

QTimes == GridSet \cup {NoT}

\* entries are grouped by the type of their value: TLC cannot hold values of
\* different types in one set
QPairs(g) ==
  UNION { UNION {
      { Ent("interactions", t, b[1], b[2], 0, 0, "pairs", SetToSeq(MInter(g, NbNodes(g, b), t))),
        Ent("degree", t, b[1], b[2], 0, 0, "degmap",
            SetToSeq({ <<n, MDeg(g, n, t)>> : n \in NbNodes(g, b) })) }
        \cup (IF g.dir THEN
      { Ent("in_interactions", t, b[1], b[2], 0, 0, "pairs",
            SetToSeq({ <<v, n>> \in g.nodes \X NbNodes(g, b) : Pres(g, v, n, t) })),
        Ent("out_interactions", t, b[1], b[2], 0, 0, "pairs",
            SetToSeq({ <<n, v>> \in NbNodes(g, b) \X g.nodes : Pres(g, n, v, t) })),
        Ent("in_degree", t, b[1], b[2], 0, 0, "degmap",
            SetToSeq({ <<n, Cardinality(MPreds(g, n, t))>> : n \in NbNodes(g, b) })),
        Ent("out_degree", t, b[1], b[2], 0, 0, "degmap",
            SetToSeq({ <<n, Cardinality(MNbrs(g, n, t))>> : n \in NbNodes(g, b) })) } ELSE {})
      : b \in NBunches(g) } : t \in QTimes }
QNodes(g) ==
  UNION { UNION {
      { Ent("neighbors", t, TRUE, <<>>, n, 0, "nodes", SetToSeq(MNbrs(g, n, t))),
        Ent("dn_all_neighbors", t, TRUE, <<>>, n, 0, "nodes",
            SetToSeq(MPreds(g, n, t)) \o SetToSeq(MNbrs(g, n, t))),
        Ent("dn_non_neighbors", t, TRUE, <<>>, n, 0, "nodes",
            SetToSeq(g.nodes \ (MPreds(g, n, t) \cup MNbrs(g, n, t) \cup {n}))) }
        \cup (IF g.dir THEN
      { Ent("predecessors", t, TRUE, <<>>, n, 0, "nodes", SetToSeq(MPreds(g, n, t))) } ELSE {})
      : n \in g.nodes } : t \in QTimes }
  \cup { Ent("nodes", t, TRUE, <<>>, 0, 0, "nodes", SetToSeq(MNodesAt(g, t))) : t \in QTimes }
  \cup { Ent("dn_density", t, TRUE, <<>>, 0, 0, "rat", MDensity(g, t)) : t \in QTimes }
  \cup { Ent("get_node_snapshots", NoT, TRUE, <<>>, n, 0, "ints",
             SortedSeq({ t \in DOMAIN g.snap : n \in MNodesAt(g, t) })) : n \in g.nodes }
QInts(g) ==
  UNION { UNION {
      { Ent("degree1", t, TRUE, <<>>, n, 0, "int", MDeg(g, n, t)) }
        \cup { Ent("number_of_interactions_uv", t, TRUE, <<>>, n, m, "int",
                   IF Pres(g, n, m, t) THEN 1 ELSE 0) : m \in g.nodes }
      : n \in g.nodes } : t \in QTimes }
  \cup UNION {
      { Ent("number_of_nodes", t, TRUE, <<>>, 0, 0, "int", Cardinality(MNodesAt(g, t))),
        Ent("size", t, TRUE, <<>>, 0, 0, "int", MSize(g, t)),
        Ent("number_of_interactions", t, TRUE, <<>>, 0, 0, "int", MSize(g, t)) }
      : t \in QTimes }
QBools(g) ==
  UNION { { Ent("has_node", t, TRUE, <<>>, n, 0, "bool", n \in MNodesAt(g, t)) : n \in g.nodes } : t \in QTimes }
  \cup { Ent("dn_is_empty", NoT, TRUE, <<>>, 0, 0, "bool", DOMAIN g.tl = {}) }
  \cup (IF g.dir THEN
        UNION { UNION { { Ent("has_successor", t, TRUE, <<>>, n, m, "bool", Pres(g, n, m, t)),
                          Ent("has_predecessor", t, TRUE, <<>>, n, m, "bool", Pres(g, m, n, t)) }
                        : m \in g.nodes \cup {Unknown} } : <<n, t>> \in g.nodes \X QTimes }
        ELSE {})

QModel(g) == SetToSeq(QPairs(g)) \o SetToSeq(QNodes(g)) \o SetToSeq(QInts(g)) \o SetToSeq(QBools(g))

QTable == C02_Table(R, ObsOf(G), QModel(G))
InvC02 == \A x \in QTable : x[2] # "fail"
StrictC02 == \A x \in QTable : x[2] = "ok"
=============================================================================
