------------------------------ MODULE Annotate -------------------------------
(***************************************************************************)
(* C14: annotate_paths selects exactly the optimal paths per criterion.     *)
(* A path is a non-empty sequence of hops <<a, b, t>>.                      *)
(***************************************************************************)
EXTENDS Paths

PLen(h) == Len(h)
PDur(h) == h[Len(h)][3] - h[1][3]
PArr(h) == h[Len(h)][3]

MinOver(S, f(_)) == MinOf({ f(h) : h \in S })
Shortest(S)  == { h \in S : PLen(h) = MinOver(S, PLen) }
Fastest(S)   == { h \in S : PDur(h) = MinOver(S, PDur) }
Foremost(S)  == { h \in S : PArr(h) = MinOver(S, PArr) }
FastestShortest(S) == Fastest(Shortest(S))
ShortestFastest(S) == Shortest(Fastest(S))

\* line: [paths (input list), res, out: [shortest, fastest, foremost,
\*        fastest_shortest, shortest_fastest] (lists of paths), lens, durs]
AnnotateTable(line) ==
  LET S == ToSet(line.paths) IN
  IF line.res # "ok" THEN { <<"C14_x_no_exception", "fail">> }
  ELSE
  { <<"C14_a_shortest", St(ToSet(line.out.shortest) = Shortest(S))>>,
    <<"C14_b_fastest", St(ToSet(line.out.fastest) = Fastest(S))>>,
    <<"C14_c_foremost", St(ToSet(line.out.foremost) = Foremost(S))>>,
    <<"C14_d_fastest_shortest", St(ToSet(line.out.fastest_shortest) = FastestShortest(S))>>,
    <<"C14_e_shortest_fastest", St(ToSet(line.out.shortest_fastest) = ShortestFastest(S))>>,
    <<"C14_f_keys", St(line.keys = <<"fastest", "fastest_shortest", "foremost", "shortest", "shortest_fastest">>)>>,
    <<"C14_g_length_duration",
      St(/\ Len(line.lens) = Len(line.paths) /\ Len(line.durs) = Len(line.paths)
         /\ \A i \in DOMAIN line.paths : line.lens[i] = PLen(line.paths[i]) /\ line.durs[i] = PDur(line.paths[i]))>> }
=============================================================================
