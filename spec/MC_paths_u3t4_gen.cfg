\* undirected, 3 nodes, instants 0..3: 4096 graphs, generation only (the invariants are checked by MC_paths_u3t4 in the thorough tier)
SPECIFICATION Spec
CONSTANTS
  PNodes <- PN3
  PTMax = 3
  PDir = FALSE
  PLoops = FALSE
  PKF <- PathKF
  PAcc = FALSE
  PSparse = FALSE
CHECK_DEADLOCK FALSE
