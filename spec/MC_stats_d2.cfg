\* 2 nodes without self-loops, instants 0..2, both classes (inter-event identities on DynDiGraph)
SPECIFICATION Spec
CONSTANTS
  Nodes <- NN2
  TMax = 2
  Modes <- RemModes
  Loops = FALSE
  Bulk = FALSE
  Degenerate = FALSE
  KF <- PinnedKF
VIEW view
INVARIANT InvStatsRange
INVARIANT InvInterEvent
CHECK_DEADLOCK FALSE
