\* undirected, 4 nodes, instants 0..3, every pair present at no or exactly one instant: 15,625 graphs
SPECIFICATION Spec
CONSTANTS
  PNodes <- PN4
  PTMax = 3
  PDir = FALSE
  PLoops = FALSE
  PKF <- PathKF
  PAcc = FALSE
  PSparse = TRUE
INVARIANT InvPaths
INVARIANT InvValid
INVARIANT InvDag
CHECK_DEADLOCK FALSE
