\* quick tier: as MC_core_small with instants 0..2
SPECIFICATION Spec
CONSTANTS
  Nodes <- N2
  TMax = 2
  Modes <- AllModes
  Loops = FALSE
  Bulk = TRUE
  Degenerate = TRUE
  KF <- PinnedKF
VIEW view
CHECK_DEADLOCK FALSE
INVARIANT InvC01
INVARIANT InvC01c
INVARIANT InvRefines
