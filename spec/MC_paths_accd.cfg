\* ACCUMULATIVE directed graphs
\* directed, 3 nodes without self-loops, instants 0..1: 4096 graphs
SPECIFICATION Spec
CONSTANTS
  PNodes <- PN3
  PTMax = 1
  PDir = TRUE
  PLoops = FALSE
  PKF <- PathKF
  PAcc = TRUE
  PSparse = FALSE
INVARIANT InvPaths
INVARIANT InvValid
INVARIANT InvDag
CHECK_DEADLOCK FALSE
