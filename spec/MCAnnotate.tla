----------------------------- MODULE MCAnnotate ------------------------------
(***************************************************************************)
(* Design-level check of C14 and generator of the path-list domain: the     *)
(* single pass of annotate_paths with running minima and tie lists, then    *)
(* the two second-level minima, equals the declarative optimum sets for     *)
(* every list of paths over a pool (ties in every criterion, duplicates,    *)
(* single-hop paths, any order).                                            *)
(***************************************************************************)
EXTENDS Annotate

CONSTANT AMaxLen
VARIABLE plist
vars == <<plist>>

\* pool of 10 paths between nodes 1 and 9: hop counts 1..3, departures and
\* arrivals chosen so that every criterion has ties and the criteria disagree
H(a, b, t) == <<a, b, t>>
Pool == { << H(1, 9, 5) >>,                                   \* 1 hop, dur 0, arr 5
          << H(1, 9, 7) >>,                                   \* 1 hop, dur 0, arr 7
          << H(1, 2, 0), H(2, 9, 3) >>,                       \* 2 hops, dur 3, arr 3
          << H(1, 3, 2), H(3, 9, 3) >>,                       \* 2 hops, dur 1, arr 3
          << H(1, 2, 4), H(2, 9, 5) >>,                       \* 2 hops, dur 1, arr 5
          << H(1, 2, 0), H(2, 3, 1), H(3, 9, 2) >>,           \* 3 hops, dur 2, arr 2
          << H(1, 4, 1), H(4, 3, 2), H(3, 9, 2 + 1) >>,       \* 3 hops, dur 2, arr 3
          << H(1, 2, 6), H(2, 3, 7), H(3, 9, 8) >>,           \* 3 hops, dur 2, arr 8
          \* equally fast as the 3-hop paths with fewer hops (fastest ties with different hop counts), and a
          \* 3-hop path as slow as a 2-hop one (shortest_fastest / fastest_shortest must use the *other* measure)
          << H(1, 4, 3), H(4, 9, 5) >>,                       \* 2 hops, dur 2, arr 5
          << H(1, 2, 1), H(2, 4, 2), H(4, 9, 4) >> }          \* 3 hops, dur 3, arr 4

RECURSIVE ListsUpTo(_)
ListsUpTo(n) == IF n = 0 THEN { <<>> }
                ELSE LET P == ListsUpTo(n - 1) IN P \cup { Append(s, x) : s \in { q \in P : Len(q) = n - 1 }, x \in Pool }
Domain == { s \in ListsUpTo(AMaxLen) : s # <<>> }

\* the single pass
RECURSIVE Pass(_, _, _)
Pass(ps, i, st) ==
  IF i > Len(ps) THEN st
  ELSE LET p == ps[i]
           s1 == IF st.sh = <<>> \/ PLen(p) < st.shv THEN [st EXCEPT !.sh = <<p>>, !.shv = PLen(p)]
                 ELSE IF PLen(p) = st.shv THEN [st EXCEPT !.sh = Append(@, p)] ELSE st
           s2 == IF s1.fa = <<>> \/ PDur(p) < s1.fav THEN [s1 EXCEPT !.fa = <<p>>, !.fav = PDur(p)]
                 ELSE IF PDur(p) = s1.fav THEN [s1 EXCEPT !.fa = Append(@, p)] ELSE s1
           s3 == IF s2.fo = <<>> \/ PArr(p) < s2.fov THEN [s2 EXCEPT !.fo = <<p>>, !.fov = PArr(p)]
                 ELSE IF PArr(p) = s2.fov THEN [s2 EXCEPT !.fo = Append(@, p)] ELSE s2
       IN Pass(ps, i + 1, s3)
Model(ps) ==
  LET st == Pass(ps, 1, [sh |-> <<>>, shv |-> 0, fa |-> <<>>, fav |-> 0, fo |-> <<>>, fov |-> 0])
      fs == { p \in ToSet(st.sh) : PDur(p) = MinOf({ PDur(q) : q \in ToSet(st.sh) }) }
      sf == { p \in ToSet(st.fa) : PLen(p) = MinOf({ PLen(q) : q \in ToSet(st.fa) }) }
  IN [shortest |-> ToSet(st.sh), fastest |-> ToSet(st.fa), foremost |-> ToSet(st.fo),
      fastest_shortest |-> fs, shortest_fastest |-> sf]

Init == plist \in Domain
Next == UNCHANGED plist
Spec == Init /\ [][Next]_vars

InvAnnotate ==
  LET m == Model(plist)  S == ToSet(plist) IN
  /\ m.shortest = Shortest(S) /\ m.fastest = Fastest(S) /\ m.foremost = Foremost(S)
  /\ m.fastest_shortest = FastestShortest(S) /\ m.shortest_fastest = ShortestFastest(S)
  /\ m.shortest \subseteq S /\ m.fastest \subseteq S /\ m.foremost \subseteq S
==============================================================================
