\* ACCUMULATIVE undirected graphs, 3 nodes, add instants 0..2: 512 add sets x all (u, v, window)
SPECIFICATION Spec
CONSTANTS
  PNodes <- PN3
  PTMax = 2
  PDir = FALSE
  PLoops = FALSE
  PKF <- PathKF
  PAcc = TRUE
  PSparse = FALSE
INVARIANT InvPaths
INVARIANT InvValid
INVARIANT InvDag
CHECK_DEADLOCK FALSE
