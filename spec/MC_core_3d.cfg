\* 3 nodes without self-loops, DIRECTED (6 ordered pairs), removal enabled, instants 0..1: several
\* pairs sharing event instants, accumulative coupling through the latest id
SPECIFICATION Spec
CONSTANTS
  Nodes <- N3
  TMax = 1
  Modes <- DirRem
  Loops = FALSE
  Bulk = TRUE
  Degenerate = FALSE
  KF <- PinnedKF
VIEW view
INVARIANT InvC01
INVARIANT InvC03
INVARIANT InvC04
INVARIANT InvC05
INVARIANT InvC08
INVARIANT InvC01c
INVARIANT InvC07
INVARIANT InvRefines
CHECK_DEADLOCK FALSE
