\* all lists of length <= 4 over the pool of 8 paths (4,680 lists)
SPECIFICATION Spec
CONSTANTS
  AMaxLen = 4
INVARIANT InvAnnotate
CHECK_DEADLOCK FALSE
