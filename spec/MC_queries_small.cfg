\* C02 at design level: 2 nodes with self-loops and reciprocal pairs,
\* instants 0..1, all four class/mode combinations
SPECIFICATION Spec
CONSTANTS
  Nodes <- N2
  TMax = 1
  Modes <- AllModes
  Loops = TRUE
  Bulk = FALSE
  Degenerate = FALSE
  KF <- PinnedKF
VIEW view
INVARIANT InvC02
CHECK_DEADLOCK FALSE
