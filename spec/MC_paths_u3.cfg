\* undirected, 3 nodes, instants 0..2: 512 graphs x all (u, v, window)
SPECIFICATION Spec
CONSTANTS
  PNodes <- PN3
  PTMax = 2
  PDir = FALSE
  PLoops = FALSE
  PKF <- PathKF
  PAcc = FALSE
  PSparse = FALSE
INVARIANT InvPaths
INVARIANT InvValid
INVARIANT InvDag
CHECK_DEADLOCK FALSE
