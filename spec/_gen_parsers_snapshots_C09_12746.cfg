\* all line sequences of length <= 3 over the pool of line shapes
SPECIFICATION Spec
CONSTANTS
  MaxLen = 3
  Parser = "snapshots"
  Dir <- BothDirs
  KF <- PinnedKF
INVARIANT InvReading
INVARIANT InvNoise
CHECK_DEADLOCK FALSE
