\* quick tier: as MC_core_small with instants 0..2
SPECIFICATION Spec
CONSTANTS
  Nodes <- N2
  TMax = 2
  Modes <- AllModes
  Loops = FALSE
  Bulk = TRUE
  Degenerate = TRUE
  KF <- PinnedKF
VIEW view
INVARIANT InvC01
INVARIANT InvC03
INVARIANT InvC04
INVARIANT InvC05
INVARIANT InvC08
INVARIANT InvC01c
INVARIANT InvC07
INVARIANT InvRefines
CHECK_DEADLOCK FALSE
