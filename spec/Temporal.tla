------------------------------ MODULE Temporal ------------------------------
(***************************************************************************)
(* Sets of instants, closed intervals and timelines: the vocabulary every   *)
(* other module of the dynetx specification is written in.                  *)
(*                                                                          *)
(* A *timeline* is a sequence of closed intervals <<a,b>>; its presence set *)
(* is the union of a..b.  A *run* of a set of instants S is a maximal       *)
(* interval contained in S.                                                 *)
(***************************************************************************)
EXTENDS Integers, Sequences, FiniteSets, SequencesExt, FiniteSetsExt

MaxOf(S) == CHOOSE x \in S : \A y \in S : y <= x
MinOf(S) == CHOOSE x \in S : \A y \in S : x <= y

SortedSeq(S) == SetToSortSeq(S, LAMBDA a, b : a < b)

\* presence set of a timeline (degenerate intervals a > b contribute nothing)
PresOf(s) == UNION { s[i][1] .. s[i][2] : i \in DOMAIN s }

RunStartsOf(S) == { x \in S : (x - 1) \notin S }
RunEndsOf(S)   == { x \in S : (x + 1) \notin S }
RunEndFrom(S, a) == MinOf({ b \in RunEndsOf(S) : b >= a })
RunStartTo(S, b) == MaxOf({ a \in RunStartsOf(S) : a <= b })
RunsOf(S) == { <<a, RunEndFrom(S, a)>> : a \in RunStartsOf(S) }

\* the canonical timeline of a set of instants
RunsSeq(S) == LET st == SortedSeq(RunStartsOf(S))
              IN  [i \in DOMAIN st |-> <<st[i], RunEndFrom(S, st[i])>>]

\* C03: every interval well formed, strictly increasing, at least one absent
\* instant between consecutive intervals
WellShaped(s) == \A i \in DOMAIN s : s[i][1] <= s[i][2]
Canonical(s) == /\ WellShaped(s)
                /\ \A i \in DOMAIN s : i > 1 => s[i-1][2] + 1 < s[i][1]

\* closed span covered by one add_interaction(u,v,t,e) call; NoEnd stands for
\* "no vanishing time"
NoEnd == -99999
SpanOf(t, e) == IF e = NoEnd THEN t .. t ELSE t .. (e - 1)

\* Reference merge of a canonical timeline with a new span a..b (a <= b) that
\* is not rejected (a >= start of the last run) -- Appendix A of DESIGN.md
Merge(s, a, b) ==
  IF s = <<>> THEN << <<a, b>> >>
  ELSE LET k == Len(s)  la == s[k][1]  lb == s[k][2] IN
       IF b <= lb          THEN s
       ELSE IF a <= lb + 1 THEN [s EXCEPT ![k] = <<la, b>>]
       ELSE Append(s, <<a, b>>)

\* Lemma checked by TLC in MC_temporal: Merge is the canonical timeline of
\* the union
MergeLemma(s, a, b) ==
  (Canonical(s) /\ a <= b /\ (s = <<>> \/ a >= s[Len(s)][1]))
     => /\ Canonical(Merge(s, a, b))
        /\ PresOf(Merge(s, a, b)) = PresOf(s) \cup (a .. b)
        /\ Merge(s, a, b) = RunsSeq(PresOf(s) \cup (a .. b))

\* exact rationals as <<num, den>>, den > 0
RatEq(x, y) == x[1] * y[2] = y[1] * x[2]
RatLe(x, y) == x[1] * y[2] <= y[1] * x[2]
=============================================================================
