------------------------------- MODULE MCStats -------------------------------
(***************************************************************************)
(* Design-level check of C17 over every reachable state of the bounded      *)
(* model: the ratio measures lie in [0,1] whenever their denominator is not *)
(* 0, and the inter-event histograms of the model's event log satisfy the   *)
(* mass / weighted-sum identities.                                          *)
(***************************************************************************)
EXTENDS MCCore, Stats

InvStatsRange ==
  (~G.dir) =>
  LET O == ObsOf(G)
      TT == IdSet(O)
      P == { x \in Triples(O) : x[3] \in TT }
      V == NodesOf(O)
  IN /\ InUnit(Coverage(P, TT, V)) /\ InUnit(Uniformity(P, V)) /\ InUnit(Density(P, V))
     /\ \A u \in V : /\ InUnit(NodeContribution(P, TT, u)) /\ InUnit(NodeDensityA(P, V, u)) /\ InUnit(NodeDensityB(P, V, u))
                     /\ \A v \in V \ {u} : /\ InUnit(EdgeContribution(P, TT, u, v)) /\ InUnit(PairUniformity(P, u, v))
                                           /\ InUnit(PairDensity(P, u, v))
     /\ \A t \in TT : InUnit(SnapshotDensity(P, t))
InvInterEvent ==
  LET st == ObsOf(G).stream IN
  \A mode \in {"all", "node", "in", "out"} : \A u \in Nodes :
    LET ev == RestrictEv(st, mode, u)  h == GapHist(ev) IN
    /\ SumOf(h, LAMBDA x : x[2]) = (IF Len(ev) = 0 THEN 0 ELSE Len(ev) - 1)
    /\ SumOf(h, LAMBDA x : x[1] * x[2]) = (IF Len(ev) = 0 THEN 0 ELSE ev[Len(ev)][4] - ev[1][4])
==============================================================================
