-------------------------------- MODULE Guard --------------------------------
(***************************************************************************)
(* C19: untimed networkx mutators are blocked; frozen graphs are immutable; *)
(* no call through the inherited API leaves the graph ill-formed.           *)
(*                                                                          *)
(* A "guard" line records one call applied to a deep copy of the current    *)
(* object:  name (entry point), usage (argument shape), res, frozen (the    *)
(* object had been frozen), isfrozen (dn.is_frozen after freeze), mut (the  *)
(* entry point is a mutator), obs (observation after the call).             *)
(***************************************************************************)
EXTENDS Stats

\* the names the property lists
Blocked == { "add_edge", "add_edges_from", "add_weighted_edges_from", "update_edges",
             "remove_edge", "remove_edges_from", "remove_node", "remove_nodes_from",
             "edges_iter", "in_edges", "out_edges", "in_edges_iter", "out_edges_iter",
             "dn_set_edge_attributes", "dn_get_edge_attributes" }
\* the timed mutators freeze() does not cover (KF5, pinned by test_functions_directed)
AddFamily == { "add_interaction", "add_interactions_from", "add_path", "add_star", "add_cycle",
               "dn_add_path", "dn_add_star", "dn_add_cycle" }

\* well-formedness of an observation relative to its own presence: no
\* adjacency entry without a timeline (observer errors), timelines canonical,
\* ids / counts / stream in step with presence
WellFormedTable(dir, rem, O) ==
  LET RS == [SelfRef(dir, O, NodesOf(O), <<>>) EXCEPT !.rem = rem]
      TS == UNION { { <<"KF1", p, r[1]>> : r \in { q \in RunsOf(RS.added[p]) : q[2] = q[1] + 1 } } : p \in DOMAIN RS.added }
  IN IF rem THEN { x \in CoreTable(RS, O, TS) : SubSeq(x[1], 1, 3) \in {"C03", "C04", "C05"} /\ x[1] # "C04_d_avg_nodes" }
     ELSE { <<"C03_x_observers", St(C03_x(RS, O))>>, <<"C05_a_chronological", St(C05_a(RS, O))>>,
            <<"C05_x_observers", St(C05_x(RS, O))>>,
            \* accumulative graph: presence, snapshot ids and stream in step with one another (every pair present from
            \* its first instant to the largest snapshot id and nowhere else; one '+' per pair there, no '-')
            <<"C08_a_presence_persists", St(C08_a(RS, O))>>,
            <<"C08_b_one_plus_no_minus", St(C08_b(RS, O))>> }

GuardTable(R, prevO, line) ==
  LET wf == { <<"C19_c_wellformed_" \o x[1], x[2]>> : x \in WellFormedTable(R.dir, R.rem, line.obs) } IN
  (IF line.frozen
   THEN { <<"C19_d_is_frozen", St(line.isfrozen)>> }
        \cup (IF line.mut
              THEN { <<"C19_e_frozen_graph_is_immutable",
                       StKF(line.res # "ok" /\ line.obs.raw = prevO.raw,
                            line.name \in AddFamily, "KF5")>> }
              ELSE {})
   ELSE IF line.name \in Blocked
   THEN { <<"C19_a_blocked_raises", St(line.res = "NetworkXNotImplemented")>>,
          <<"C19_b_blocked_leaves_graph_untouched",
            St(/\ Triples(line.obs) = Triples(prevO) /\ line.obs.stream = prevO.stream
               /\ line.obs.ids = prevO.ids /\ line.obs.tl = prevO.tl)>> }
   ELSE {})
  \cup wf
=============================================================================
