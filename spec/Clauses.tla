------------------------------ MODULE Clauses -------------------------------
(***************************************************************************)
(* The properties, written once.  Every clause is an operator over          *)
(*    R   the reference state (DynSpec) and                                 *)
(*    O   an *observation* of a graph through its public API                *)
(* and is used (i) as an invariant of the implementation-shaped model, with *)
(* O = ObsOf(G) (module MCCore), and (ii) as the verdict of trace           *)
(* validation, with O = what the real code returned (module Trace).         *)
(*                                                                          *)
(* Shape of an observation (sequences are in the order the code returned    *)
(* them; clauses treat them as sets or bags unless the property fixes an    *)
(* order):                                                                  *)
(*   O.nodes   <<n, ...>>              nodes()                              *)
(*   O.tl      <<[u,v,iv], ...>>       interactions()  (iv = <<<<a,b>>,..>>)*)
(*   O.tlnb    <<[u,v,iv], ...>>       interactions([n]) for every node n,  *)
(*                                     plus in_/out_interactions() when     *)
(*                                     directed                             *)
(*   O.has     <<[u,v,ts], ...>>       for every ordered pair of known      *)
(*                                     nodes, the grid instants at which    *)
(*                                     has_interaction(u,v,t) is true       *)
(*   O.flat    << <<u,v>>, ...>>       ordered pairs with has_interaction   *)
(*                                     (u,v) true                           *)
(*   O.ids     <<t, ...>>              temporal_snapshots_ids()             *)
(*   O.cnt     << <<t,num,den>>, ..>>  interactions_per_snapshots()         *)
(*   O.ids2, O.cnt2                    the same through the dn.* functions   *)
(*   O.cntAt   << <<t,num,den>>, ..>>  interactions_per_snapshots(t), grid  *)
(*   O.nn      << <<t,n>>, ...>>       number_of_nodes(t) on the grid       *)
(*   O.avg     <<num,den>> or <<>>     avg_number_of_nodes() (<<>>: raised) *)
(*   O.stream  << <<u,v,op,t>>, ...>>  list(stream_interactions())          *)
(*   O.stream2 same through dn.stream_interactions(G)                       *)
(*   O.grid    <<lo,hi>>               observation grid (covers every       *)
(*                                     instant used in the trace, -1/+2)    *)
(*   O.err     <<"observer:what",..>>  observers that raised or returned a  *)
(*                                     value of the wrong shape             *)
(*   O.raw     order preserving digest of all of the above (C07, C19)       *)
(***************************************************************************)
EXTENDS DynSpec

Grid(O) == O.grid[1] .. O.grid[2]

HasEntries(O) == ToSet(O.has)
FlatSet(O)    == ToSet(O.flat)
IdSet(O)      == ToSet(O.ids)
MaxId(O)      == IF O.ids = <<>> THEN O.grid[1] - 1 ELSE MaxOf(IdSet(O))

\* events with the pair normalised (either endpoint order is the same pair
\* on an undirected graph)
EvSet(R, st) == { <<Norm(R.dir, x[1], x[2]), x[3], x[4]>> : x \in ToSet(st) }
Plus(E, p)   == { x[3] : x \in { y \in E : y[1] = p /\ y[2] = "+" } }
Minus(E, p)  == { x[3] : x \in { y \in E : y[1] = p /\ y[2] = "-" } }

NoErr(O, prefixes) ==
  \A i \in DOMAIN O.err : \A q \in prefixes :
     ~(Len(O.err[i]) >= Len(q) /\ SubSeq(O.err[i], 1, Len(q)) = q)

(***************************************************************************)
(* C01  presence = union of the added spans (removal enabled)               *)
(***************************************************************************)
C01_a(R, O) == \A h \in HasEntries(O) :
                 ToSet(h.ts) = AddedOf(R, Norm(R.dir, h.u, h.v)) \cap Grid(O)
C01_b(R, O) == \A h \in HasEntries(O) :
                 LET p == Norm(R.dir, h.u, h.v) IN
                 /\ p \in DOMAIN R.added => <<h.u, h.v>> \in FlatSet(O)
                 /\ (p \notin DOMAIN R.added /\ p \notin R.deg) => <<h.u, h.v>> \notin FlatSet(O)
C01_x(R, O) == NoErr(O, {"has:", "flat:"})

(***************************************************************************)
(* C03  canonical timelines                                                 *)
(***************************************************************************)
TlAll(O) == ToSet(O.tl) \cup ToSet(O.tlnb)
C03_a(R, O) == \A x \in TlAll(O) : WellShaped(x.iv)
C03_b(R, O) == \A x \in TlAll(O) : Canonical(x.iv)
C03_c(R, O) == /\ \A x \in TlAll(O) : PresOf(x.iv) = AddedOf(R, Norm(R.dir, x.u, x.v))
               /\ \A p \in DOMAIN R.added : \E x \in ToSet(O.tlnb) : Norm(R.dir, x.u, x.v) = p
C03_d(R, O) == \A x, y \in TlAll(O) :
                 Norm(R.dir, x.u, x.v) = Norm(R.dir, y.u, y.v) => x.iv = y.iv
C03_x(R, O) == NoErr(O, {"tl:", "tlnb:"})

(***************************************************************************)
(* C04  snapshot ids and per-snapshot counts                                *)
(***************************************************************************)
Ascending(s) == \A i \in DOMAIN s : i > 1 => s[i-1] < s[i]
C04_a(R, O) == Ascending(O.ids) /\ IdSet(O) = RefAllInstants(R)
PresentAt(R, t) == { p \in DOMAIN R.added : t \in R.added[p] }
C04_b(R, O) == \A c \in ToSet(O.cntAt) :
                 c[3] > 0 /\ RatEq(<<c[2], c[3]>>, <<Cardinality(PresentAt(R, c[1])), 1>>)
C04_c(R, O) == /\ { c[1] : c \in ToSet(O.cnt) } = IdSet(O)
               /\ Len(O.cnt) = Len(O.ids)
               /\ \A c \in ToSet(O.cnt) :
                    c[3] > 0 /\ RatEq(<<c[2], c[3]>>, <<Cardinality(PresentAt(R, c[1])), 1>>)
NNAt(O, t) == LET S == { x \in ToSet(O.nn) : x[1] = t } IN
              IF S = {} THEN 0 ELSE (CHOOSE x \in S : TRUE)[2]
RECURSIVE SumNN(_, _)
SumNN(O, S) == IF S = {} THEN 0 ELSE LET t == CHOOSE x \in S : TRUE IN NNAt(O, t) + SumNN(O, S \ {t})
C04_d(R, O) == O.ids # <<>> =>
                 /\ O.avg # <<>>
                 /\ O.avg[2] > 0
                 /\ RatEq(O.avg, <<SumNN(O, IdSet(O)), Cardinality(IdSet(O))>>)
\* dn.temporal_snapshots_ids(G) / dn.interactions_per_snapshots(G) are the methods
C04_e(R, O) == O.ids2 = O.ids /\ ToSet(O.cnt2) = ToSet(O.cnt) /\ Len(O.cnt2) = Len(O.cnt)
C04_x(R, O) == NoErr(O, {"ids:", "cnt:", "cntAt:", "nn:"})

(***************************************************************************)
(* C05  the stream is a chronological, faithful event log                   *)
(***************************************************************************)
C05_a(R, O) == \A i \in DOMAIN O.stream : i > 1 => O.stream[i-1][4] <= O.stream[i][4]
C05_b(R, O) == Cardinality(EvSet(R, O.stream)) = Len(O.stream)
C05_c(R, O) == LET E == EvSet(R, O.stream) IN
               { <<x[1], x[3]>> : x \in { y \in E : y[2] = "+" } }
                 = UNION { { <<p, a>> : a \in RunStartsOf(R.added[p]) } : p \in DOMAIN R.added }
C05_d(R, O) == \A x \in EvSet(R, O.stream) :
                 x[2] = "-" => (x[3] - 1) \in AddedOf(R, x[1]) /\ x[3] \notin AddedOf(R, x[1])
\* long runs that are not closed: <<p, a, b>>
C05_e_bad(R, O) == LET E == EvSet(R, O.stream) IN
   UNION { { <<p, r[1], r[2]>> : r \in { q \in RunsOf(R.added[p]) :
                                          q[2] > q[1] /\ <<p, "-", q[2] + 1>> \notin E } }
           : p \in DOMAIN R.added }
C05_e(R, O) == C05_e_bad(R, O) = {}
\* the stated reading of the stream: '+' = appears, following '-' = vanishes,
\* unclosed '+' = that single instant
ReplayPres(E, p) ==
  LET P == Plus(E, p)  M == Minus(E, p)
      Closers(a) == { m \in M : m > a /\ ~\E a2 \in P : a < a2 /\ a2 <= m }
  IN UNION { IF Closers(a) = {} THEN {a} ELSE a .. (MinOf(Closers(a)) - 1) : a \in P }
C05_f_bad(R, O) == LET E == EvSet(R, O.stream) IN
   { p \in DOMAIN R.added \cup { x[1] : x \in E } : ReplayPres(E, p) # AddedOf(R, p) }
C05_f(R, O) == C05_f_bad(R, O) = {}
C05_g(R, O) == O.stream2 = O.stream
C05_x(R, O) == NoErr(O, {"stream:", "stream2:"})

(***************************************************************************)
(* C08  accumulative mode                                                   *)
(***************************************************************************)
C08_a(R, O) == \A h \in HasEntries(O) :
                 ToSet(h.ts) = RefPres(R, Norm(R.dir, h.u, h.v), MaxId(O)) \cap Grid(O)
C08_b(R, O) == LET E == EvSet(R, O.stream) IN
               /\ E = { <<p, "+", MinOf(R.added[p])>> : p \in DOMAIN R.added }
               /\ Len(O.stream) = Cardinality(E)
C08_c(R, O) == Ascending(O.ids) /\ IdSet(O) = RefAllInstants(R)
C08_d(R, O) == C01_b(R, O)
C08_x(R, O) == NoErr(O, {"has:", "flat:", "stream:", "ids:"})

(***************************************************************************)
(* Known finding KF1 (pinned by test_stream_interactions and the read/write *)
(* tests): a one-instant run [a,a] that never received a vanishing time and *)
(* is extended to [a,a+1] by a call without vanishing time stays unclosed.  *)
(* taint = set of <<"KF1", p, a>> recorded at the call; it explains exactly *)
(* the C05_e / C05_f failures of the two-instant run [a,a+1] of pair p.     *)
(***************************************************************************)
KF1_Live(R, T) ==
  { x \in T : x[1] = "KF1" /\ x[2] \in DOMAIN R.added /\ <<x[3], x[3] + 1>> \in RunsOf(R.added[x[2]]) }
KF1_Taints(R, O, T) == KF1_Live(R, T)
KF1_new(R, prevO, u, v, t, e) ==
  LET p == Norm(R.dir, u, v) IN
  IF /\ R.rem /\ e = NoEnd /\ t # NoT
     /\ p \in DOMAIN R.added
     /\ <<t - 1, t - 1>> \in RunsOf(R.added[p])
     /\ <<p, "-", t>> \notin EvSet(R, prevO.stream)
  THEN { <<"KF1", p, t - 1>> } ELSE {}
KF1_explains_e(R, O, T) ==
  C05_e_bad(R, O) \subseteq { <<x[2], x[3], x[3] + 1>> : x \in KF1_Taints(R, O, T) }
KF1_explains_f(R, O, T) ==
  LET E  == EvSet(R, O.stream)
      E2 == E \cup { <<x[2], "-", x[3] + 2>> : x \in KF1_Taints(R, O, T) }
  IN \A p \in C05_f_bad(R, O) : ReplayPres(E2, p) = AddedOf(R, p)

(***************************************************************************)
(* One logged / modelled call of the add family and its effect on the       *)
(* reference state.  c.op is the entry point; c.t = NoT when t is omitted,  *)
(* c.e = NoEnd when e is omitted.  Only the *result* of the call is taken   *)
(* from the implementation: a call that returned normally is applied, a     *)
(* call that raised is not (bulk helpers: the elements before the first one *)
(* the documented rule rejects stay applied, C07).                          *)
(***************************************************************************)
IsBulk(c) == c.op \in {"add_interactions_from", "add_path", "add_star", "add_cycle"}
IsAdd(c)  == c.op = "add_interaction" \/ IsBulk(c)
PairsOfCall(c) ==
  CASE c.op = "add_interaction"       -> << <<c.u, c.v>> >>
    [] c.op = "add_interactions_from" -> c.ps
    [] c.op = "add_path"              -> PathPairs(c.ns)
    [] c.op = "add_star"              -> StarPairs(c.ns)
    [] c.op = "add_cycle"             -> CyclePairs(c.ns)

ExpectedRes(R, c) ==
  IF c.t = NoT THEN "NetworkXError" ELSE RefAddMany(R, PairsOfCall(c), c.t, c.e).res

RECURSIVE RefStepMany(_, _, _, _, _, _, _)
RefStepMany(R, T, prevO, ps, t, e, n) ==
  IF n = 0 \/ ps = <<>> THEN [r |-> R, t |-> KF1_Live(R, T)]
  ELSE RefStepMany(RefAdd(R, ps[1][1], ps[1][2], t, e),
                   T \cup KF1_new(R, prevO, ps[1][1], ps[1][2], t, e),
                   prevO, Tail(ps), t, e, n - 1)

RefStep(R, T, prevO, c, res) ==
  LET ps == PairsOfCall(c) IN
  IF c.t = NoT THEN [r |-> R, t |-> T]
  ELSE IF res = "ok" THEN RefStepMany(R, T, prevO, ps, c.t, c.e, Len(ps))
  ELSE LET x == RefAddMany(R, ps, c.t, c.e) IN
       IF x.k > 0 THEN RefStepMany(R, T, prevO, ps, c.t, c.e, x.k - 1)
       ELSE [r |-> R, t |-> T]

\* which disjunct of DynImpl!Add the reference predicts for a single add_interaction call (vacuity indicator:
\* the evidence reports how often each branch was exercised on the real code)
BranchOf(R, c) ==
  IF c.t = NoT THEN "MissingT"
  ELSE LET p == Norm(R.dir, c.u, c.v)
           S == AddedOf(R, p)
           hasE == c.e # NoEnd /\ R.rem
           end  == IF hasE THEN c.e - 1 ELSE c.t
       IN IF S # {} /\ c.t < LatestRunStart(S) THEN "Reject"
          ELSE IF end < c.t THEN "EmptySpan"
          ELSE IF S = {} THEN "NewPair"
          ELSE LET lb == MaxOf(S) IN
               IF end <= lb THEN "Contained"
               ELSE IF c.t <= lb THEN "ExtendOverlap"
               ELSE IF c.t = lb + 1 THEN "ExtendAdjacent"
               ELSE "AppendRun"

\* C01: the call is rejected exactly by the documented rule (judged on
\* removal-enabled graphs only, DESIGN.md 3.6)
\* an empty span (e <= t) "starts" nowhere: the statement lets such a call be a no-op whatever its t, or be
\* subjected to the order rule like any other call
EmptyCall(c) == c.t # NoT /\ c.e # NoEnd /\ c.e <= c.t
C01_c(R, c, res) == R.rem => (res = ExpectedRes(R, c) \/ (EmptyCall(c) /\ res = "ok"))
\* C07: a raising call of the add family leaves no trace; for a bulk helper
\* whose k-th element is rejected the first k-1 elements stay applied, so the
\* raw observation may only be required to be unchanged when k = 1
C07_applies(R, c, res) ==
  /\ res # "ok"
  /\ \/ c.t = NoT
     \/ ~IsBulk(c)
     \/ RefAddMany(R, PairsOfCall(c), c.t, c.e).k <= 1
C07_a(R, c, res, prevO, O) == C07_applies(R, c, res) => O.raw = prevO.raw

(***************************************************************************)
(* Clause table of the core properties for one observation: a set of        *)
(* <<name, status>>, status "ok" | "fail" | "KFn" (explained by an open     *)
(* known finding).  The property of a clause is the prefix of its name.     *)
(***************************************************************************)
St(b) == IF b THEN "ok" ELSE "fail"
StKF(b, kfb, kf) == IF b THEN "ok" ELSE IF kfb THEN kf ELSE "fail"

CoreTable(R, O, T) ==
  IF R.rem THEN
   { <<"C01_a_presence_is_union", St(C01_a(R, O))>>,
     <<"C01_b_flattened", St(C01_b(R, O))>>,
     <<"C01_x_observers", St(C01_x(R, O))>>,
     <<"C03_a_intervals", St(C03_a(R, O))>>,
     <<"C03_b_canonical", St(C03_b(R, O))>>,
     <<"C03_c_union_is_presence", St(C03_c(R, O))>>,
     <<"C03_d_directions_agree", St(C03_d(R, O))>>,
     <<"C03_x_observers", St(C03_x(R, O))>>,
     <<"C04_a_ids", St(C04_a(R, O))>>,
     <<"C04_b_count_at", St(C04_b(R, O))>>,
     <<"C04_c_count_all", St(C04_c(R, O))>>,
     <<"C04_d_avg_nodes", St(C04_d(R, O))>>,
     <<"C04_e_functional_forms", St(C04_e(R, O))>>,
     <<"C04_x_observers", St(C04_x(R, O))>>,
     <<"C05_a_chronological", St(C05_a(R, O))>>,
     <<"C05_b_no_repeat", St(C05_b(R, O))>>,
     <<"C05_c_plus_at_run_starts", St(C05_c(R, O))>>,
     <<"C05_d_minus_after_run", St(C05_d(R, O))>>,
     <<"C05_e_long_runs_closed", StKF(C05_e(R, O), KF1_explains_e(R, O, T), "KF1")>>,
     <<"C05_f_replay", StKF(C05_f(R, O), KF1_explains_f(R, O, T), "KF1")>>,
     <<"C05_g_functional_form", St(C05_g(R, O))>>,
     <<"C05_x_observers", St(C05_x(R, O))>> }
  ELSE
   { <<"C08_a_presence_persists", St(C08_a(R, O))>>,
     <<"C08_b_one_plus_no_minus", St(C08_b(R, O))>>,
     <<"C08_c_ids_are_add_instants", St(C08_c(R, O))>>,
     <<"C08_d_flattened", St(C08_d(R, O))>>,
     <<"C08_x_observers", St(C08_x(R, O))>>,
     <<"C05_a_chronological", St(C05_a(R, O))>>,
     <<"C05_b_no_repeat", St(C05_b(R, O))>>,
     <<"C05_g_functional_form", St(C05_g(R, O))>> }

NotOk(tab) == { x \in tab : x[2] # "ok" }
=============================================================================
