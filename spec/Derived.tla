------------------------------ MODULE Derived -------------------------------
(***************************************************************************)
(* Graphs the library derives from a graph G: time_slice (C06), to_directed *)
(* / to_undirected (C16), the write/read round trips (C09, C10, C11).       *)
(*                                                                          *)
(* A "derive" line records                                                  *)
(*   kind   "time_slice" | "time_slice2" | "to_directed" | "to_undirected"  *)
(*          | "snapshots" | "interactions" | "json" ...                     *)
(*   args   f, g (window), f2, g2 (second window), recip                    *)
(*   res    result kind;  hcls / hdir  class of the result H                *)
(*   src    observation of G after the call (G must be unchanged)           *)
(*   src2   observation of G after the harness mutated H (isolation, C16)   *)
(*   obs    observation of H;  q  query battery on H                        *)
(* Two independent judgements:                                              *)
(*  1. presence: H's has_interaction table equals what the property assigns *)
(*     to H as a function of G's *observed* presence (the statements are    *)
(*     relative to "present in G"), same for nodes and attributes;          *)
(*  2. well-formedness: C02-C05 hold on H relative to H's own observed      *)
(*     presence (no cascade from 1).                                        *)
(***************************************************************************)
EXTENDS Queries

\* presence triples <<u, v, t>> of an observation (ordered pairs)
Triples(O) == UNION { { <<h.u, h.v, t>> : t \in ToSet(h.ts) } : h \in HasEntries(O) }
FlatPairs(O) == FlatSet(O)

AddedFrom(hdir, P) ==
  LET ps == { Norm(hdir, x[1], x[2]) : x \in P } IN
  [p \in ps |-> { x[3] : x \in { y \in P : Norm(hdir, y[1], y[2]) = p } }]

AttrFn(O) == [n \in { x[1] : x \in ToSet(O.attrs) } |->
                 (CHOOSE x \in ToSet(O.attrs) : x[1] = n)[2]]
AttrNonZero(f, S) == LET D == { n \in DOMAIN f \cap S : f[n] # 0 } IN [n \in D |-> f[n]]

\* reference of H relative to its own observed presence
SelfRef(hdir, HO, nodes, attr) ==
  [dir |-> hdir, rem |-> TRUE, added |-> AddedFrom(hdir, Triples(HO)), deg |-> {},
   nodes |-> nodes, maybe |-> {}, attr |-> attr, frozen |-> FALSE]

InWin(t, f, g) == f <= t /\ t <= g

\* presence the property assigns to H, as a function of the presence P of the source
ExpectedFrom(line, P) ==
  CASE line.kind = "time_slice"  -> { x \in P : InWin(x[3], line.f, line.g) }
    [] line.kind = "time_slice2" -> { x \in P : InWin(x[3], line.f, line.g) /\ InWin(x[3], line.f2, line.g2) }
    [] line.kind = "to_directed" -> P \cup { <<x[2], x[1], x[3]>> : x \in P }
    [] line.kind = "to_undirected" ->
         IF line.recip THEN { x \in P : <<x[2], x[1], x[3]>> \in P }
         ELSE P \cup { <<x[2], x[1], x[3]>> : x \in P }
    \* beyond the listed properties (clauses named X01_*, reported, never a violation):
    \* the subgraph induced on nbunch, and a copy without interactions
    [] line.kind = "subgraph"   -> { x \in P : x[1] \in ToSet(line.nb) /\ x[2] \in ToSet(line.nb) }
    [] line.kind = "empty_copy" -> {}
    [] OTHER -> P
ExpectedTriples(line, GO) == ExpectedFrom(line, Triples(GO))
\* H's table holds both orders of an undirected pair
Sym(hdir, P) == IF hdir THEN P ELSE P \cup { <<x[2], x[1], x[3]>> : x \in P }

ExpectedNodes(line, GO, P) ==
  IF line.kind \in {"time_slice", "time_slice2", "snapshots", "interactions"}
  THEN { x[1] : x \in P } \cup { x[2] : x \in P }
  ELSE IF line.kind = "subgraph" THEN NodesOf(GO) \cap ToSet(line.nb)
  ELSE NodesOf(GO)

DerivedRes(line) ==
  CASE line.kind = "time_slice"  -> IF line.g < line.f THEN "ValueError" ELSE "ok"
    [] line.kind = "time_slice2" -> IF line.g < line.f \/ line.g2 < line.f2 THEN "ValueError" ELSE "ok"
    [] OTHER -> "ok"

ExpectedDir(line, R) ==
  CASE line.kind = "to_directed"   -> TRUE
    [] line.kind = "to_undirected" -> FALSE
    [] OTHER -> R.dir

PropOf(kind) ==
  CASE kind \in {"time_slice", "time_slice2"} -> "C06"
    [] kind \in {"to_directed", "to_undirected"} -> "C16"
    [] kind = "snapshots"    -> "C09"
    [] kind = "interactions" -> "C10"
    [] kind = "json"         -> "C11"
    [] kind \in {"subgraph", "empty_copy"} -> "X01"
    [] OTHER -> "C00"

\* KF3 (pinned by DynGraphTestCase.test_conversion): to_directed creates only
\* one direction of every interaction
KF3_explains(line, got, exp) ==
  /\ line.kind = "to_directed"
  /\ got \subseteq exp
  /\ \A x \in exp \ got : <<x[2], x[1], x[3]>> \in got

\* KF8: the conversions of an *accumulative* source (edge_removal=False) re-add its stored intervals into a
\* removal-enabled graph: the persistence of the interactions up to the last snapshot id is not carried over.  The
\* finding explains exactly the result whose presence is the one the stored timelines of the source give (for
\* to_directed possibly with one direction only, KF3); any other presence is a violation.
StoredTriples(R, GO) ==
  LET S == UNION { { <<x.u, x.v, t>> : t \in PresOf(x.iv) } : x \in TlAll(GO) }
  IN IF R.dir THEN S ELSE S \cup { <<x[2], x[1], x[3]>> : x \in S }
KF8_explains(R, line, GO, got, hdir) ==
  /\ ~R.rem /\ line.kind \in {"to_directed", "to_undirected"}
  /\ LET exp8 == Sym(hdir, ExpectedFrom(line, StoredTriples(R, GO))) IN
     \/ got = exp8
     \/ (line.kind = "to_directed" /\ got \subseteq exp8 /\ \A x \in exp8 \ got : <<x[2], x[1], x[3]>> \in got)

\* graphs rebuilt by point adds (readers) inherit KF1: every two-instant run
PointBuilt(line) == line.kind \in {"snapshots", "json"}
SelfTaints(line, RH) ==
  IF PointBuilt(line)
  THEN UNION { { <<"KF1", p, r[1]>> : r \in { q \in RunsOf(RH.added[p]) : q[2] = q[1] + 1 } } : p \in DOMAIN RH.added }
  ELSE {}

\* ---- write / read round trips -------------------------------------------
\* C09_a: one row per interaction and instant (orientation kept when directed)
N3(x) == <<Norm(FALSE, x[1], x[2]), x[3]>>
RowsAreTriples(dir, rows, P) ==
  IF dir THEN ToSet(rows) = P /\ Len(rows) = Cardinality(P)
  ELSE /\ { N3(x) : x \in ToSet(rows) } = { N3(x) : x \in P }
       /\ Len(rows) = Cardinality({ N3(x) : x \in P })

\* KF1 inherited through write_interactions: the '-' of a tainted two-instant
\* run [a,a+1] is missing from the log, so the reader sees the single instant a
KF1_lost(R, T) == UNION { { <<x[2][1], x[2][2], x[3] + 1>>, <<x[2][2], x[2][1], x[3] + 1>> } : x \in KF1_Live(R, T) }
KF1_explains_read(R, T, got, exp) ==
  /\ got \subseteq exp
  /\ exp \ got \subseteq KF1_lost(R, T)
  /\ exp \ got # {}

IOExtras(R, T, GO, line, hdir) ==
  LET pr == PropOf(line.kind)  nm(x) == pr \o "_" \o x IN
  CASE line.kind = "snapshots" ->
         { <<nm("a_rows"), St(line.rowerr = <<>> /\ RowsAreTriples(R.dir, line.rows, Triples(GO)))>> }
    [] line.kind = "interactions" ->
         \* the events of the stream, in chronological order (the order inside one instant is not fixed by the statement)
         { <<nm("a_rows"), St(/\ line.rowerr = <<>>
                              /\ ToSet(line.rows) = ToSet(GO.stream) /\ Len(line.rows) = Len(GO.stream)
                              /\ \A i \in DOMAIN line.rows : i > 1 => line.rows[i - 1][4] <= line.rows[i][4])>>,
           <<nm("c_same_stream"),
             St(EvSet(R, line.obs.stream) = EvSet(R, GO.stream) /\ Len(line.obs.stream) = Len(GO.stream))>> }
    [] line.kind = "json" ->
         { <<nm("a_dumps"), St(line.dumps = "ok")>>,
           <<nm("b_directed_flag"), St(line.ddirok /\ line.ddir = R.dir)>>,
           <<nm("c_nodes"), St(/\ { x[1] : x \in ToSet(line.dnodes) } = NodesOf(GO)
                               /\ Len(line.dnodes) = Cardinality(NodesOf(GO))
                               /\ \A x \in ToSet(line.dnodes) :
                                    \E y \in ToSet(line.gdig) : y[1] = x[1] /\ y[2] = x[3]
                               /\ line.dgraph = line.ggraph)>>,
           <<nm("d_links"), St(line.rowerr = <<>> /\ RowsAreTriples(R.dir, line.rows, Triples(GO)))>>,
           <<nm("e_attrs_rebuilt"), St(/\ ToSet(line.hdig) = ToSet(line.gdig)
                                       /\ line.hgraph = line.ggraph)>> }
    [] OTHER -> {}

DeriveTable(R, T, prevO, line) ==
  LET pr   == PropOf(line.kind)
      GO   == prevO
      hdir == IF line.kind = "json" /\ ~line.haskey THEN line.argdir ELSE ExpectedDir(line, R)
      nm(x) == pr \o "_" \o x
  IN
  IF line.res # "ok" \/ DerivedRes(line) # "ok"
  THEN { <<nm("g_result_kind"), St(line.res = DerivedRes(line))>>,
         <<nm("d_source_unchanged"), St(line.src.raw = GO.raw)>> }
  ELSE
  LET HO   == line.obs
      P    == IF line.kind = "json" /\ ~line.haskey THEN ToSet(line.rows) ELSE ExpectedTriples(line, GO)
      got  == Triples(HO)
      exp  == Sym(hdir, P)
      ns   == ExpectedNodes(line, GO, P)
      noattr == line.kind \in {"snapshots", "interactions"} \/ (line.kind = "empty_copy" /\ ~line.withdata)
      RH   == SelfRef(hdir, HO, ns, IF noattr THEN <<>>
                                    ELSE AttrNonZero(AttrFn(GO), ns))   \* edge lists carry no attributes
      TH   == SelfTaints(line, RH)
      self == CoreTable(RH, HO, TH) \cup (IF line.q = <<>> THEN {} ELSE C02_Table(RH, HO, line.q))
      okp  == got = exp /\ FlatPairs(HO) = { <<x[1], x[2]>> : x \in exp }
  IN
  { <<nm("a_class"), St(line.hdir = hdir /\ line.hcls = (IF hdir THEN "DynDiGraph" ELSE "DynGraph"))>>,
    <<nm("b_presence"),
      IF okp THEN "ok"
      ELSE IF KF3_explains(line, got, exp) THEN "KF3"
      ELSE IF KF8_explains(R, line, GO, got, hdir) THEN "KF8"
      ELSE IF line.kind = "interactions" /\ KF1_explains_read(R, T, got, exp) THEN "KF1"
      ELSE "fail">>,
    <<nm("c_nodes_attrs"), St(/\ NodesOf(HO) = ns
                              /\ (line.kind \in {"snapshots", "interactions"} \/
                                  \A x \in ToSet(HO.attrs) : x[1] \in DOMAIN AttrFn(GO)
                                                              /\ x[2] = (IF noattr THEN 0 ELSE AttrFn(GO)[x[1]])))>>,
    <<nm("d_source_unchanged"), St(line.src.raw = GO.raw /\ line.src2.raw = GO.raw)>>,
    <<nm("g_result_kind"), St(line.res = DerivedRes(line))>> }
  \cup { <<nm("H_" \o x[1]), x[2]>> : x \in self }
  \cup IOExtras(R, T, GO, line, hdir)
=============================================================================
