-------------------------------- MODULE Stats --------------------------------
(***************************************************************************)
(* C17: temporal statistics equal their stream-graph definitions (Latapy,   *)
(* Viard, Magnien), computed from the presence relation; inter-event time   *)
(* distributions are gap histograms of the chronological stream.            *)
(* Values are exact rationals <<num, den>>; a statistic whose denominator   *)
(* is 0 is outside the property and is not judged.                          *)
(***************************************************************************)
EXTENDS Annotate

SumOf(S, f(_)) == MapThenSumSet(f, S)

TNode(P, n)    == { x[3] : x \in { y \in P : y[1] = n \/ y[2] = n } }
TPair(P, u, v) == { x[3] : x \in { y \in P : (y[1] = u /\ y[2] = v) \/ (y[1] = v /\ y[2] = u) } }
VAt(P, t)      == { x[1] : x \in { y \in P : y[3] = t } } \cup { x[2] : x \in { y \in P : y[3] = t } }
UPairs(V)      == { <<a, b>> \in V \X V : a < b }

Card(S) == Cardinality(S)

Coverage(P, T, V) == <<SumOf(T, LAMBDA t : Card(VAt(P, t))), Card(T) * Card(V)>>
NodeContribution(P, T, u) == <<Card(TNode(P, u) \cap T), Card(T)>>
EdgeContribution(P, T, u, v) == <<Card(TPair(P, u, v)), Card(T)>>
PairUniformity(P, u, v) == <<Card(TNode(P, u) \cap TNode(P, v)), Card(TNode(P, u) \cup TNode(P, v))>>
Uniformity(P, V) == <<SumOf(UPairs(V), LAMBDA p : Card(TNode(P, p[1]) \cap TNode(P, p[2]))),
                      SumOf(UPairs(V), LAMBDA p : Card(TNode(P, p[1]) \cup TNode(P, p[2])))>>
Density(P, V) == <<SumOf(UPairs(V), LAMBDA p : Card(TPair(P, p[1], p[2]))),
                   SumOf(UPairs(V), LAMBDA p : Card(TNode(P, p[1]) \cap TNode(P, p[2])))>>
PairDensity(P, u, v) == <<Card(TPair(P, u, v)), Card(TNode(P, u) \cap TNode(P, v))>>
\* node density: sum over the other nodes; the convention that also counts
\* the node itself in the denominator (what the library documents by its
\* test) is accepted as well (DESIGN.md 3.6)
NodeDensityA(P, V, u) == <<SumOf(V \ {u}, LAMBDA v : Card(TPair(P, u, v))),
                           SumOf(V \ {u}, LAMBDA v : Card(TNode(P, u) \cap TNode(P, v)))>>
NodeDensityB(P, V, u) == <<SumOf(V \ {u}, LAMBDA v : Card(TPair(P, u, v))),
                           SumOf(V, LAMBDA v : Card(TNode(P, u) \cap TNode(P, v)))>>
SnapshotDensity(P, t) == LET n == Card(VAt(P, t))
                             m == Card({ <<x[1], x[2]>> : x \in { y \in P : y[3] = t /\ y[1] < y[2] } })
                         IN IF n <= 1 THEN <<0, 1>> ELSE <<2 * m, n * (n - 1)>>
AvgNodes(P, T) == <<SumOf(T, LAMBDA t : Card(VAt(P, t))), Card(T)>>

InUnit(r) == r[2] > 0 => (0 <= r[1] /\ r[1] <= r[2])

\* ---- inter-event time distributions ---------------------------------------
\* events of the stream (in order) restricted to a node / direction
RestrictEv(st, mode, u) ==
  SelectSeq(st, LAMBDA x : CASE mode = "all"  -> TRUE
                             [] mode = "node" -> x[1] = u \/ x[2] = u
                             [] mode = "in"   -> x[2] = u
                             [] mode = "out"  -> x[1] = u)
Gaps(ev) == [i \in 1 .. (Len(ev) - 1) |-> ev[i + 1][4] - ev[i][4]]
GapHist(ev) == LET g == Gaps(ev) IN
               { <<d, Card({ i \in DOMAIN g : g[i] = d })>> : d \in { g[i] : i \in DOMAIN g } }

(***************************************************************************)
(* Clauses for a logged "stats" line: line.obs, line.es = entries           *)
(*   [fn, u, v, t, k ("rat" | "times" | "hist" | "exc"), val]               *)
(***************************************************************************)
StatEntryOKr(O, e, rem) ==
  LET \* the instants the statistics range over: the snapshot ids - on a removal-enabled graph these are the inhabited
      \* instants (C04), taken from the presence relation itself, so that an index polluted by an earlier query shows
      T == IF rem THEN { x[3] : x \in Triples(O) } ELSE IdSet(O)
      \* presence at the snapshot ids (on a removal-enabled graph that is all of it; on an accumulative graph the
      \* interactions persist between the ids as well, and the statistics range over the snapshot ids)
      P == { x \in Triples(O) : x[3] \in T }
      V == NodesOf(O)
      chk(r) == r[2] = 0 \/ (e.k = "rat" /\ e.val[2] > 0 /\ RatEq(e.val, r))
  IN
  CASE e.fn = "coverage"             -> chk(Coverage(P, T, V))
    [] e.fn = "node_contribution"    -> chk(NodeContribution(P, T, e.u))
    [] e.fn = "edge_contribution"    -> chk(EdgeContribution(P, T, e.u, e.v))
    [] e.fn = "uniformity"           -> chk(Uniformity(P, V))
    [] e.fn = "node_pair_uniformity" -> chk(PairUniformity(P, e.u, e.v))
    [] e.fn = "density"              -> chk(Density(P, V))
    [] e.fn = "pair_density"         -> chk(PairDensity(P, e.u, e.v))
    [] e.fn = "node_density"         -> NodeDensityA(P, V, e.u)[2] = 0
                                        \/ (e.k = "rat" /\ e.val[2] > 0 /\
                                            (RatEq(e.val, NodeDensityA(P, V, e.u)) \/ RatEq(e.val, NodeDensityB(P, V, e.u))))
    [] e.fn = "snapshot_density"     -> chk(SnapshotDensity(P, e.t))
    [] e.fn = "avg_number_of_nodes"  -> chk(AvgNodes(P, T))
    [] e.fn = "node_presence"        -> e.k = "times" /\ ToSet(e.val) = TNode(P, e.u) \cap T /\ NoDup(e.val)
    [] e.fn \in {"iet_all", "iet_node", "iet_in", "iet_out"} ->
         LET mode == SubSeq(e.fn, 5, Len(e.fn))
             ev   == RestrictEv(O.stream, mode, e.u)
         IN /\ e.k = "hist"
            /\ ToSet(e.val) = GapHist(ev)
            /\ Len(e.val) = Card(GapHist(ev))
            \* the two identities the property names
            /\ SumOf(ToSet(e.val), LAMBDA x : x[2]) = (IF Len(ev) = 0 THEN 0 ELSE Len(ev) - 1)
            /\ SumOf(ToSet(e.val), LAMBDA x : x[1] * x[2]) = (IF Len(ev) = 0 THEN 0 ELSE ev[Len(ev)][4] - ev[1][4])
    \* beyond the listed properties (X17): inter_event_time_distribution(u, v) is the histogram of the gaps between
    \* the consecutive boundary instants of the pair's timeline (start and end of every interval; a one-instant
    \* interval contributes one instant)
    [] e.fn = "x_iet_pair" ->
         LET tls == { x \in ToSet(O.tl) : (x.u = e.u /\ x.v = e.v) \/ (x.u = e.v /\ x.v = e.u) }
             iv  == IF tls = {} THEN <<>> ELSE (CHOOSE x \in tls : TRUE).iv
             pts == FlattenSeq([i \in DOMAIN iv |-> IF iv[i][1] = iv[i][2] THEN <<iv[i][1]>> ELSE <<iv[i][1], iv[i][2]>>])
             g   == [i \in 1 .. (Len(pts) - 1) |-> pts[i + 1] - pts[i]]
             h   == { <<d, Card({ i \in DOMAIN g : g[i] = d })>> : d \in { g[i] : i \in DOMAIN g } }
         IN e.k = "hist" /\ ToSet(e.val) = h /\ Len(e.val) = Card(h)
    [] OTHER -> FALSE

StatName(fn) == IF Len(fn) > 2 /\ SubSeq(fn, 1, 2) = "x_" THEN "X17_" \o SubSeq(fn, 3, Len(fn)) ELSE "C17_" \o fn
StatEntryOK(O, e) == StatEntryOKr(O, e, FALSE)
StatsTableR(O, es, rem) ==
  LET names == { es[i].fn : i \in DOMAIN es } IN
  { <<StatName(nm), St(\A i \in { j \in DOMAIN es : es[j].fn = nm } : StatEntryOKr(O, es[i], rem))>> : nm \in names }
StatsTable(O, es) == StatsTableR(O, es, FALSE)
=============================================================================
