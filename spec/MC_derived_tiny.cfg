\* quick: 2 nodes without self-loops (reciprocal directed pairs), instants 0..2

SPECIFICATION Spec
CONSTANTS
  Nodes <- NN2
  TMax = 2
  Modes <- RemModes
  Loops = FALSE
  Bulk = FALSE
  Degenerate = FALSE
  KF <- PinnedKF
VIEW view
INVARIANT InvSlice
INVARIANT InvSliceSlice
INVARIANT InvConvert
INVARIANT InvSnapshotsRoundTrip
INVARIANT InvInteractionsRoundTrip
INVARIANT InvJsonRoundTrip
CHECK_DEADLOCK FALSE
