"""C17: temporal statistics equal their stream-graph definitions.

Model level: spec/MCStats.tla (ranges, inter-event identities over every
reachable state).  Code level: every reachable DynGraph state without
self-loops of the bounded model (3 nodes) and seeded random graphs are built
on the real class; every statistic is called for every node / pair / instant,
logged as an exact rational and judged by TLC against spec/Stats.tla computed
from the presence relation and stream observed on the same graph."""
import numbers
import random
from fractions import Fraction

from . import core, drivers, tlc
from .check_core import mc_states, LABS
from .runner import Check


def _rat(x):
    if core.as_bool(x) is not None:
        return None
    if core.as_int(x) is not None:
        return [core.as_int(x), 1]
    if isinstance(x, numbers.Real) and float(x) == float(x) and abs(float(x)) != float("inf"):
        x = float(x)
        f = Fraction(x).limit_denominator(10 ** 4)
        return [f.numerator, f.denominator]
    return None


def _entry(es, fn, u, v, t, call, kind, L):
    e = {"fn": fn, "u": u, "v": v, "t": t}
    try:
        r = call()
        if kind == "rat":
            val = _rat(r)
            e["k"], e["val"] = ("rat", val) if val is not None else ("shape", [0, 1])
        elif kind == "times":
            e["k"], e["val"] = "times", [L.atime(x) for x in r]
        elif kind == "hist":
            # any mapping from integral gaps to integral counts (numpy integers included)
            ok = hasattr(r, "items") and all(core.as_int(a) is not None and core.as_int(b) is not None for a, b in r.items())
            e["k"], e["val"] = ("hist", [[core.as_int(a), core.as_int(b)] for a, b in r.items()]) if ok else ("shape", [])
    except Exception as ex:
        e["k"], e["val"] = "exc:" + core.exc_name(ex), []
    es.append(e)


def stats_entries(g, L, known, grid, removal=True):
    """removal=False (accumulative graph): edge_contribution and snapshot_density are not called -- the first is
    computed from the stored intervals, the second through time_slice (C06 covers removal-enabled graphs only); what
    they mean for persisting interactions is not fixed by the statement"""
    es = []
    present = [n for n in known if g.has_node(L.node(n))]
    directed = g.is_directed()
    cn = L.node
    # the ratio measures are stated for graphs without self-loops; the inter-event distributions for both classes, loops or not
    loops = any(g.has_interaction(cn(n), cn(n)) for n in present)
    if not directed and not loops:
        _entry(es, "coverage", 0, 0, 0, lambda: g.coverage(), "rat", L)
        _entry(es, "uniformity", 0, 0, 0, lambda: g.uniformity(), "rat", L)
        _entry(es, "density", 0, 0, 0, lambda: g.density(), "rat", L)
        _entry(es, "avg_number_of_nodes", 0, 0, 0, lambda: g.avg_number_of_nodes(), "rat", L)
        for u in present:
            _entry(es, "node_contribution", u, 0, 0, lambda: g.node_contribution(cn(u)), "rat", L)
            _entry(es, "node_density", u, 0, 0, lambda: g.node_density(cn(u)), "rat", L)
            _entry(es, "node_presence", u, 0, 0, lambda: sorted(g.node_presence(cn(u))), "times", L)
            for v in present:
                if u == v:
                    continue
                _entry(es, "node_pair_uniformity", u, v, 0, lambda: g.node_pair_uniformity(cn(u), cn(v)), "rat", L)
                _entry(es, "pair_density", u, v, 0, lambda: g.pair_density(cn(u), cn(v)), "rat", L)
                if removal and g.has_interaction(cn(u), cn(v)):
                    _entry(es, "edge_contribution", u, v, 0, lambda: g.edge_contribution(cn(u), cn(v)), "rat", L)
        for t in (range(grid[0], grid[1] + 1) if removal else ()):
            _entry(es, "snapshot_density", 0, 0, t, lambda: g.snapshot_density(L.time(t)), "rat", L)
    _entry(es, "iet_all", 0, 0, 0, lambda: g.inter_event_time_distribution(), "hist", L)
    _entry(es, "iet_all", 0, 0, 0, lambda: core.dn.inter_event_time_distribution(g), "hist", L)
    for u in present:
        _entry(es, "iet_node", u, 0, 0, lambda: g.inter_event_time_distribution(cn(u)), "hist", L)
        if directed:
            _entry(es, "iet_in", u, 0, 0, lambda: g.inter_in_event_time_distribution(cn(u)), "hist", L)
            _entry(es, "iet_out", u, 0, 0, lambda: g.inter_out_event_time_distribution(cn(u)), "hist", L)
    # beyond the listed properties (clause X17_iet_pair, reported only): the pair form
    if not directed and not loops:
        for u in present:
            for v in present:
                if u < v and g.has_interaction(cn(u), cn(v)):
                    _entry(es, "x_iet_pair", u, v, 0, lambda: g.inter_event_time_distribution(cn(u), cn(v)), "hist", L)
    if directed:
        _entry(es, "iet_all", 0, 0, 0, lambda: g.inter_in_event_time_distribution(), "hist", L)
        _entry(es, "iet_all", 0, 0, 0, lambda: g.inter_out_event_time_distribution(), "hist", L)
    return es


def job_stats(job):
    seed, directed, calls, lab, known, grid = job[:6]
    removal = job[6] if len(job) > 6 else True
    rng = random.Random(seed)
    # a seeded share of the jobs asks for the statistics of the same object twice (after a prefix of its history, then
    # at the end): a statistic may never depend on what an earlier call computed
    k = rng.randint(1, len(calls) - 1) if len(calls) >= 2 and rng.random() < 0.4 else len(calls)
    lines, g, L, known, grid = drivers.make_trace(directed, removal, calls[:k], labeling=lab, rng=rng, known=known, grid=grid,
                                                  ret_obj=True)
    if k < len(calls):
        lines.append({"op": "stats", "fork": False, "res": "ok", "obs": core.observe(g, L, known, grid),
                      "es": stats_entries(g, L, known, grid, removal)})
        drivers.extend_trace(lines, g, L, calls[k:], known, grid, rng)
    # keep only the last observation: the statistics are judged on the final state
    lines.append({"op": "stats", "fork": False, "res": "ok", "obs": core.observe(g, L, known, grid),
                  "es": stats_entries(g, L, known, grid, removal)})
    return lines


def _loop_free(calls):
    for c in calls:
        if c["op"] == "add_interaction" and c["u"] == c["v"]:
            return False
        if "ps" in c and any(p[0] == p[1] for p in c["ps"]):
            return False
        if "ns" in c:
            ns = c["ns"]
            if c["op"] == "add_cycle" and len(ns) == 1:
                return False
            if any(ns[i] == ns[i + 1] for i in range(len(ns) - 1)) or (c["op"] == "add_cycle" and ns[0] == ns[-1]):
                return False
            if c["op"] == "add_star" and ns[0] in ns[1:]:
                return False
    return True


def run(prop, tier, seed):
    chk = Check(prop, tier, seed)
    rng = random.Random(seed)
    for cfg in ("MC_stats_3n.cfg", "MC_stats_d2.cfg"):
        res = tlc.run_mc(cfg, "MC_stats.tla", workers=8, timeout=1800)
        chk.add_mc(res, "InvStatsRange, InvInterEvent over every reachable state")
    jobs = []
    nst = 0
    for cfg in (["MC_core_3n.cfg", "MC_core_tiny.cfg"] if tier == "quick" else ["MC_core_3n.cfg", "MC_core_small.cfg"]):
        states, alphabet = mc_states(chk, cfg, ["InvRefines"])
        states = [s for s in states if s["hist"]]        # removal-enabled and accumulative states
        nmax = max([n for c in alphabet for n in drivers.call_nodes(c)] or [2])
        known = list(range(1, nmax + 1))
        grid = drivers.grid_of(alphabet)
        if tier == "quick":
            states = rng.sample(states, min(len(states), 250))
        for i, st in enumerate(states):
            nst += 1
            jobs.append((rng.randrange(1 << 30), st["dir"], st["hist"], LABS[(i + seed) % len(LABS)], known, grid, st["rem"]))
    for _ in range(80 if tier == "quick" else 2000):
        nn = rng.choice([3, 4, 5, 6])
        tmax = rng.choice([3, 5, 8, 12])
        keep_loops = rng.random() < 0.3      # graphs with self-loops: only the inter-event distributions are asked for
        calls = [c for c in drivers.rand_history(rng, nn, tmax, rng.randint(3, 20)) if keep_loops or _loop_free([c])]
        if not calls:
            continue
        jobs.append((rng.randrange(1 << 30), rng.random() < 0.35, calls, rng.choice(LABS), drivers.known_of(calls), drivers.grid_of(calls),
                     rng.random() < 0.75))
    chk.run_jobs(job_stats, jobs, "stats", chunk=500)
    chk.extra["bounded_states_replayed"] = nst
    chk.assumptions = [
        "TLC, the CommunityModules and the JSON bridge are correct",
        "floats are recovered as exact rationals with Fraction(x).limit_denominator(10**4) (denominators of the definitions stay far below)",
        "a statistic whose defining denominator is 0 is outside the property and is not judged; node_density accepts the denominator "
        "with or without the node itself (DESIGN.md 3.6)",
    ]
    rule = ("each case is one self-loop-free graph state (rebuilt from a TLC witness history of the 3-node / 2-node bounded models or a "
            "seeded random history with 3-6 nodes) on which every statistic is called for every node, ordered pair and grid instant "
            "(ratio measures on DynGraph; inter-event distributions incl. in/out variants on both classes); non-trivial = at least "
            "two snapshots; distinct = distinct digests of (observation, call)")
    return chk.finish(rule, exhaustive=(tier == "thorough"))
