"""Re-execute a stored violation (out/violations/*.json) against the current tree
and let TLC judge it again; prints the failing clauses and the observation."""
import json
import sys

from . import drivers, tlc


def main():
    path = sys.argv[1]
    if path.endswith(".txt"):
        print(open(path).read()[-6000:])
        return 1
    rec = json.load(open(path))
    if rec.get("kind") == "generic":
        from . import replay_generic
        return replay_generic.replay(rec)
    tr = rec["trace"]
    head = tr[0]
    calls = [c for c in tr[1:] if not c.get("fork")]
    forks = [c for c in tr[1:] if c.get("fork")][-1:]
    strip = lambda c: {k: v for k, v in c.items() if k not in ("fork", "res", "form", "obs")}
    lines = drivers.make_trace(head["dir"], head["rem"], [strip(c) for c in calls], labeling=head.get("lab", "int"),
                               forks=[strip(c) for c in forks])
    v = tlc.validate([lines], "replay", shards=1)[0]
    print("calls:")
    for ln in lines:
        print("  ", {k: v_ for k, v_ in ln.items() if k != "obs"})
    print("failing clauses now:", v["fails"])
    print("stored failing clause:", rec["clause"], "at line", rec["line"])
    print("observation at the last line:", json.dumps(lines[-1]["obs"])[:3000])
    return 1 if any(f[1] == rec["clause"] for f in v["fails"]) else 0


if __name__ == "__main__":
    sys.exit(main())
