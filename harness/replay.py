"""Re-execute a stored violation (out/violations/*.json) against the current tree
(or DYNETX_ROOT) and let TLC judge it again: the job that produced the failing
trace (driver function + its arguments, stored in the file) is run once more."""
import importlib
import json
import sys

from . import tlc


def main():
    path = sys.argv[1]
    if path.endswith(".txt"):
        print(open(path).read()[-6000:])
        return 1
    rec = json.load(open(path))
    meta = rec.get("meta")
    if not meta:
        # traces that did not come from a driver job (repository tests under the tracer, simulation): re-apply the calls
        from . import drivers
        tr = rec["trace"]
        head = tr[0]
        strip = lambda c: {k: v for k, v in c.items() if k not in ("fork", "res", "form", "obs", "test")}
        calls = [strip(c) for c in tr[1:] if not c.get("fork") and c["op"] in drivers.FORMS]
        forks = [strip(c) for c in tr[1:] if c.get("fork") and c["op"] in drivers.FORMS][-1:]
        lines = drivers.make_trace(head["dir"], head["rem"], calls, labeling="int", forks=forks)
        v = tlc.validate([lines], "replay", shards=1)[0]
        for ln in lines:
            print("  ", json.dumps({k: v_ for k, v_ in ln.items() if k != "obs"})[:300])
        print("stored failing clause:", rec["clause"], "at line", rec["line"])
        print("failing clauses now:", [f for f in v["fails"] if f[2] == "fail"])
        return 1 if any(f[1] == rec["clause"] and f[2] == "fail" for f in v["fails"]) else 0
    mod, _, name = meta["fn"].rpartition(".")
    fn = getattr(importlib.import_module(mod), name)
    job = meta["job"]
    r = fn(tuple(job) if isinstance(job, list) else job)
    trace = r[meta["index"]] if meta["index"] is not None else r
    if meta["index"] is not None and not (r and isinstance(r[0], list)):
        trace = r
    v = tlc.validate([trace], "replay", shards=1)[0]
    print("job:", meta["fn"])
    for ln in trace:
        print("  ", json.dumps({k: v_ for k, v_ in ln.items() if k not in ("obs", "cobs", "src", "src2", "q", "qs", "es", "ss")})[:400])
    print("stored failing clause:", rec["clause"], "at line", rec["line"])
    print("failing clauses now:", [f for f in v["fails"] if f[2] == "fail"])
    print("explained by known findings now:", sorted({(f[1], f[2]) for f in v["fails"] if f[2] != "fail"}))
    return 1 if any(f[1] == rec["clause"] and f[2] == "fail" for f in v["fails"]) else 0


if __name__ == "__main__":
    sys.exit(main())
