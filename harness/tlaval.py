"""Parser for TLA+ values as printed by TLC (PrintT output, -dump files).

Supports integers, strings, booleans, tuples <<..>>, sets {..}, records
[a |-> v, ..], explicit functions (k :> v @@ k2 :> v2) and integer ranges
a..b.  Sets become Python frozensets when hashable, otherwise lists; records
become dicts; functions become dicts keyed by the (hashable) key value.
"""
import re

_tok = re.compile(r'''\s*(<<|>>|\|->|:>|@@|\.\.|[\[\]{}(),]|-?\d+|"(?:[^"\\]|\\.)*"|[A-Za-z_][A-Za-z0-9_]*)''')


class _P:
    def __init__(self, s):
        self.toks = []
        pos = 0
        n = len(s)
        while pos < n:
            m = _tok.match(s, pos)
            if not m:
                if s[pos:].strip() == '':
                    break
                raise ValueError("cannot tokenize at %r" % s[pos:pos + 40])
            self.toks.append(m.group(1))
            pos = m.end()
        self.i = 0

    def peek(self):
        return self.toks[self.i] if self.i < len(self.toks) else None

    def next(self):
        t = self.toks[self.i]
        self.i += 1
        return t

    def expect(self, t):
        x = self.next()
        if x != t:
            raise ValueError("expected %s got %s" % (t, x))

    def value(self):
        v = self.atom()
        # function construction k :> v @@ ...
        if self.peek() == ':>':
            d = {}
            self.next()
            d[_h(v)] = self.value_noat()
            while self.peek() == '@@':
                self.next()
                k = self.atom()
                self.expect(':>')
                d[_h(k)] = self.value_noat()
            return d
        return v

    def value_noat(self):
        return self.atom()

    def atom(self):
        t = self.next()
        if t == '<<':
            out = []
            while self.peek() != '>>':
                out.append(self.value())
                if self.peek() == ',':
                    self.next()
            self.next()
            return tuple(out)
        if t == '{':
            out = []
            while self.peek() != '}':
                out.append(self.value())
                if self.peek() == ',':
                    self.next()
            self.next()
            try:
                return frozenset(_h(x) for x in out)
            except TypeError:
                return out
        if t == '[':
            d = {}
            while self.peek() != ']':
                k = self.next()
                self.expect('|->')
                d[k] = self.value()
                if self.peek() == ',':
                    self.next()
            self.next()
            return d
        if t == '(':
            v = self.value()
            self.expect(')')
            return v
        if t[0] == '"':
            return bytes(t[1:-1], 'utf-8').decode('unicode_escape')
        if t == 'TRUE':
            return True
        if t == 'FALSE':
            return False
        if re.fullmatch(r'-?\d+', t):
            v = int(t)
            if self.peek() == '..':
                self.next()
                hi = int(self.next())
                return frozenset(range(v, hi + 1))
            return v
        return t  # model value / identifier


def _h(x):
    if isinstance(x, dict):
        return tuple(sorted((k, _h(v)) for k, v in x.items()))
    if isinstance(x, list):
        return tuple(_h(y) for y in x)
    if isinstance(x, tuple):
        return tuple(_h(y) for y in x)
    return x


def parse(s):
    p = _P(s)
    v = p.value()
    if p.peek() is not None:
        raise ValueError("trailing tokens: %r" % p.toks[p.i:p.i + 5])
    return v


def parse_dump(path):
    """Yield dict var -> value for every state of a TLC -dump file."""
    with open(path) as f:
        txt = f.read()
    for block in re.split(r'^State \d+:\n', txt, flags=re.M)[1:]:
        st = {}
        parts = re.split(r'^/\\ ', block.strip(), flags=re.M)
        for part in parts:
            part = part.strip()
            if not part:
                continue
            name, _, val = part.partition(' = ')
            st[name.strip()] = parse(val)
        yield st


if __name__ == '__main__':
    print(parse('<<"VERDICT", 1, {<<2, "C01_a", "fail">>}, [a |-> 1..3, b |-> (<<1,2>> :> <<<<0,0>>>> @@ <<2,1>> :> <<>>)]>>'))
