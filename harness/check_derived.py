"""C06 (time_slice) and C16 (conversions): graphs derived from every reachable
state of the bounded model and from random graphs, judged by spec/Derived.tla."""
import random

from . import core, derive, drivers, tlc
from .check_core import mc_states, LABS
from .runner import Check


IOLABS = ["int", "zero", "int_rev", "neg", "big", "str", "uni", "cross0", "dstr", "dstr", "flt"]


def _decorate(g, L, known, rng, lines, grid):
    """isolated node, node attributes (incl. nested mutable values), graph attribute"""
    extra = []
    for n in rng.sample(known, min(len(known), 2)):
        extra.append({"op": "add_node", "n": n, "a": rng.randint(1, 3)})
    iso = max(known) + 1
    extra.append({"op": "add_node", "n": iso, "a": rng.randint(0, 2)})
    return extra, iso


def job_derive(job):
    seed, prop, directed, calls, lab, known, grid, tier = job[:8]
    removal = job[8] if len(job) > 8 else True      # C16 only: accumulative sources (known finding KF8)
    rng = random.Random(seed)
    extra, iso = _decorate(None, None, known, rng, None, grid)
    known2 = sorted(set(known) | {iso})
    big = len(known2) > 8 or grid[1] - grid[0] > 200     # large universe / long timelines
    lines, g, L, known2, grid = drivers.make_trace(directed, removal, list(calls) + extra, labeling=lab, rng=rng,
                                                   known=known2, grid=grid, ret_obj=True, observe_every=not big)
    # nested mutable attribute values and a graph attribute (not modelled; part of the raw digest)
    for n in list(g.nodes())[:2]:
        g.add_node(n, nest=[1, 2], nestd={"k": [1]})      # public API: add_node on an existing node updates its attributes
    g.graph["gnest"] = [1]
    if rng.random() < 0.3:
        # graph attributes may have any name, also the names of constructor parameters
        g.graph["edge_removal"] = False
        g.graph["data"] = "survey.csv"
    lines.append({"op": "observe", "fork": False, "res": "ok", "obs": core.observe(g, L, known2, grid)})
    lo, hi = grid
    if big:                        # no query battery on the results, sampled windows
        tier = "quick"
    def emit(tier):
        if prop == "C06":
            wins = [(f, t) for f in range(lo, hi) for t in range(f, hi)]
            nwin = min(len(wins), 80) if tier == "thorough" else 5     # every window on the bounded grids, 80 sampled on longer ones
            for (f, t) in (wins if nwin >= len(wins) else rng.sample(wins, nwin)):
                lines.append(derive.derive_line(g, L, known2, grid, "time_slice",
                                                {"f": f, "g": t, "gomit": False, "form": rng.choice(["method", "function"])},
                                                rng=rng, with_battery=(not big and rng.random() < (0.35 if tier == "quick" else 0.2))))
            f = rng.randint(lo, hi - 1)
            lines.append(derive.derive_line(g, L, known2, grid, "time_slice", {"f": f, "g": f, "gomit": True, "form": "method"}, rng=rng,
                                            with_battery=not big))
            f, t = rng.randint(lo + 1, hi), rng.randint(lo, hi - 1)
            if t < f:
                lines.append(derive.derive_line(g, L, known2, grid, "time_slice", {"f": f, "g": t, "gomit": False, "form": "method"}, rng=rng,
                                                with_battery=not big))
            for _ in range(3 if tier == "quick" else 12):
                (f, t), (f2, t2) = rng.choice(wins), rng.choice(wins)
                lines.append(derive.derive_line(g, L, known2, grid, "time_slice2", {"f": f, "g": t, "f2": f2, "g2": t2},
                                                rng=rng, with_battery=False))
        elif prop in ("C09", "C10", "C11"):
            kind = {"C09": "snapshots", "C10": "interactions", "C11": "json"}[prop]
            ncfg = 2 if tier == "quick" else 6
            for _ in range(ncfg):
                if kind == "json":
                    drop = rng.random() < 0.3
                    # without the key the argument decides; reading *directed* data as undirected is outside the
                    # property (the link order of the two directions need not be chronological for the merged pair)
                    cfg = {"idkey": rng.choice(["id", "id", "name"]), "dropkey": drop,
                           "argdir": (True if directed else rng.random() < 0.5) if drop else rng.random() < 0.5}
                else:
                    cfg = {"delim": rng.choice([" ", ",", "\t", ";"]), "enc": rng.choice(["utf-8", "latin-1", "utf-16"]) if False else rng.choice(["utf-8", "latin-1"]),
                           "target": rng.choice(["plain", "gz", "bz2", "fileobj"])}
                lines.append(derive.io_line(g, L, known2, grid, kind, cfg, rng=rng, with_battery=(not big and rng.random() < 0.3)))
        else:
            if directed:
                lines.append(derive.derive_line(g, L, known2, grid, "to_undirected", {"recip": False}, rng=rng, mutate=True, with_battery=not big))
                lines.append(derive.derive_line(g, L, known2, grid, "to_undirected", {"recip": True}, rng=rng, mutate=True, with_battery=not big))
            else:
                lines.append(derive.derive_line(g, L, known2, grid, "to_directed", {}, rng=rng, mutate=True, with_battery=not big))
            if not big:
                # beyond the listed properties (clauses X01_*: reported in the evidence, never a violation)
                nb = rng.sample(known2, rng.randint(1, len(known2))) + ([max(known2) + 5] if rng.random() < 0.3 else [])
                L.node(max(known2) + 5)
                lines.append(derive.derive_line(g, L, known2, grid, "subgraph", {"nb": nb, "form": rng.choice(["method", "function"])},
                                                rng=rng, with_battery=False))
                lines.append(derive.derive_line(g, L, known2, grid, "empty_copy", {"withdata": rng.random() < 0.5}, rng=rng,
                                                with_battery=False))

    emit(tier)
    if not big and rng.random() < 0.3:
        # the same source object is changed (point adds inside the grid) and derived from again: a result may never
        # depend on what an earlier derivation saw
        more = [{"op": "add_interaction", "u": rng.choice(known2), "v": rng.choice(known2),
                 "t": rng.randint(grid[0] + 1, max(grid[0] + 1, grid[1] - 2)), "e": core.NoEnd} for _ in range(rng.randint(1, 3))]
        drivers.extend_trace(lines, g, L, more, known2, grid, rng)
        emit("quick")
    return lines


def long_history(rng):
    """3 nodes, a handful of runs that together cover more than 8,192 (pair, instant) rows"""
    NoEnd = core.NoEnd
    a = rng.randint(2600, 3400)
    calls = [{"op": "add_interaction", "u": 1, "v": 2, "t": 0, "e": a},
             {"op": "add_interaction", "u": 2, "v": 3, "t": rng.randint(1, 50), "e": a + rng.randint(1, 40)},
             {"op": "add_interaction", "u": 3, "v": 1, "t": rng.randint(60, 90), "e": a - rng.randint(1, 40)},
             {"op": "add_interaction", "u": 1, "v": 2, "t": a + 5, "e": NoEnd},
             {"op": "add_interaction", "u": 2, "v": 1, "t": a + 7, "e": a + 30},
             {"op": "add_interaction", "u": 3, "v": 2, "t": a + 60, "e": a + 64}]
    head, tail = calls[:3], calls[3:]      # the long runs first (a later-starting run of the same pair would reject them)
    rng.shuffle(head)
    rng.shuffle(tail)
    return head + tail


def many_runs_history(rng):
    """2-3 nodes; one pair with 10-14 disjoint presence runs (a second pair with a few), instants up to ~60"""
    NoEnd = core.NoEnd
    calls, t = [], 0
    for _ in range(rng.randint(10, 14)):
        ln = rng.choice([1, 2, 3, 3, 4])
        calls.append({"op": "add_interaction", "u": 1, "v": 2, "t": t, "e": (t + ln) if (ln > 1 or rng.random() < 0.5) else NoEnd})
        t += ln + rng.randint(1, 3)
    t2 = rng.randint(0, 5)
    for _ in range(rng.randint(1, 4)):
        calls.append({"op": "add_interaction", "u": rng.choice([2, 3]), "v": rng.choice([1, 3]), "t": t2, "e": t2 + rng.randint(1, 6)})
        t2 += rng.randint(7, 15)
    return calls


def many_events_history(rng):
    """30 nodes, every pair given five closed runs by five bulk calls: more than 4,096 events in the stream"""
    n = 30
    ps = [[a, b] for a in range(1, n + 1) for b in range(a + 1, n + 1)]
    calls, t = [], 0
    for _ in range(5):
        rng.shuffle(ps)
        calls.append({"op": "add_interactions_from", "ps": [list(p) for p in ps], "t": t, "e": t + rng.choice([1, 2])})
        t += rng.choice([3, 4])
    return calls


DERIVED_INVS = {"C06": ["InvSlice", "InvSliceSlice"], "C16": ["InvConvert"], "C09": ["InvSnapshotsRoundTrip"],
                "C10": ["InvInteractionsRoundTrip"], "C11": ["InvJsonRoundTrip"]}


def mc_derived(chk, prop, tier):
    """design level: the implementation-shaped models of the derived constructors (spec/MCDerived.tla)
    satisfy the clauses of spec/Derived.tla in every reachable state of the bounded model"""
    import os
    if prop not in DERIVED_INVS:
        return
    cfg = "MC_derived_tiny.cfg" if tier == "quick" else "MC_derived_loops.cfg"
    with open(os.path.join(tlc.SPEC, cfg)) as f:
        lines = [ln for ln in f.read().splitlines() if not ln.startswith("INVARIANT")]
    dst = os.path.join(tlc.SPEC, "_gen_%s_%s_%d.cfg" % (cfg[:-4], prop, os.getpid()))
    with open(dst, "w") as f:
        f.write("\n".join(lines + ["INVARIANT " + i for i in DERIVED_INVS[prop]]) + "\n")
    try:
        res = tlc.run_mc(dst, "MC_derived.tla", workers=16, timeout=3000)
    finally:
        os.remove(dst)
    res["cfg"] = cfg
    chk.add_mc(res, "%s: model of the derived constructor satisfies the Derived.tla clauses in every reachable state"
               % ",".join(DERIVED_INVS[prop]))
    if prop == "C16":
        res = tlc.run_mc("MC_derived_acc.cfg", "MC_derived.tla", workers=8, timeout=3000)
        chk.add_mc(res, "InvConvert on removal-enabled and accumulative sources (the presence clause answers KF8 for the latter)")


def run(prop, tier, seed):
    chk = Check(prop, tier, seed, prefixes=(prop,))
    rng = random.Random(seed)
    mc_derived(chk, prop, tier)
    jobs = []
    nst = 0
    # quick: self-loops / reciprocal pairs (instants 0..1) and multi-run timelines (instants 0..2)
    cfgs = ["MC_core_loops.cfg", "MC_core_tiny.cfg"] if tier == "quick" else ["MC_core_loops.cfg", "MC_core_small.cfg", "MC_core_3n.cfg"]
    for cfg in cfgs:
        states, alphabet = mc_states(chk, cfg, ["InvRefines", "InvC03"])
        states = [s for s in states if s["rem"] or prop == "C16"]      # C16 also converts accumulative sources
        nmax = max([n for c in alphabet for n in drivers.call_nodes(c)] or [2])
        known = list(range(1, nmax + 1))
        grid = drivers.grid_of(alphabet)
        if tier == "quick":
            states = rng.sample(states, min(len(states), 90))
        for i, st in enumerate(states):
            nst += 1
            labs = IOLABS if prop in ("C09", "C10", "C11") else LABS
            hist = list(st["hist"])
            if alphabet and rng.random() < 0.5:
                # the witness history is the shortest way into the state: follow it by one or two calls of the alphabet, so
                # that the same presence is also reached the long way round (closed then extended, re-stated, rejected ...)
                hist += [dict(c) for c in rng.sample(alphabet, min(len(alphabet), rng.choice([1, 2])))]
            jobs.append((rng.randrange(1 << 30), prop, st["dir"], hist, labs[(i + seed) % len(labs)], known, grid, tier, st["rem"]))
    nrand = 60 if tier == "quick" else 1500
    for i in range(nrand):
        nn = rng.choice([2, 3, 4, 5])
        tmax = rng.choice([3, 5, 8])
        calls = drivers.rand_history(rng, nn, tmax, rng.randint(2, 14))
        jobs.append((rng.randrange(1 << 30), prop, rng.random() < 0.5, calls,
                     rng.choice(IOLABS if prop in ("C09", "C10", "C11") else LABS),
                     drivers.known_of(calls), drivers.grid_of(calls), tier, not (prop == "C16" and rng.random() < 0.25)))
    # a few large universes (12-18 nodes, instants up to 80): presence / node / round-trip clauses only
    for _ in range(4 if tier == "quick" else 60):
        calls = [c for c in drivers.rand_history(rng, rng.choice([12, 18]), rng.choice([40, 80]), rng.randint(60, 120), bulk=0.1)
                 if c["op"] not in ("clear", "clear_edges")]
        jobs.append((rng.randrange(1 << 30), prop, rng.random() < 0.5, calls,
                     rng.choice(IOLABS if prop in ("C09", "C10", "C11") else LABS[:5]), drivers.known_of(calls), drivers.grid_of(calls), tier))
    # long timelines: a few pairs present over thousands of instants (per-instant expansion of the writers / slices
    # crosses every usual buffer or block size: more than 8,192 rows)
    for _ in range(1 if tier == "quick" else 6):
        calls = long_history(rng)
        jobs.append((rng.randrange(1 << 30), prop, rng.random() < 0.5, calls,
                     rng.choice(IOLABS if prop in ("C09", "C10", "C11") else LABS[:5]), [1, 2, 3], drivers.grid_of(calls), tier))
    # many separate presence runs on one pair (algorithms that index or bisect the timeline)
    for _ in range(3 if tier == "quick" else 40):
        calls = many_runs_history(rng)
        jobs.append((rng.randrange(1 << 30), prop, rng.random() < 0.5, calls,
                     rng.choice(IOLABS if prop in ("C09", "C10", "C11") else LABS[:5]), [1, 2, 3], drivers.grid_of(calls), tier))
    if prop == "C10":
        # an event stream of more than 4,096 events
        for _ in range(1 if tier == "quick" else 4):
            calls = many_events_history(rng)
            jobs.append((rng.randrange(1 << 30), prop, rng.random() < 0.5, calls, rng.choice(["int", "str"]), list(range(1, 31)),
                         drivers.grid_of(calls), tier))
    chk.run_jobs(job_derive, jobs, "der", chunk=200)
    if prop == "C09":
        # 'u v t e' rows read as the span t..e-1 (clause C09_c, spec/ParsersSpec.tla)
        from . import check_c18
        chk.extra["parser_cases"] = check_c18.parse_jobs(
            chk, ("snapshots",), tier, rng, nquick=500, only=lambda c: any(len(l["toks"]) >= 4 for l in c))
    if prop == "C10":
        # every well-formed event log of the bounded domain fed to the reader (clause C10_d)
        from . import check_c18
        chk.extra["parser_cases"] = check_c18.parse_jobs(chk, ("interactions",), tier, rng, nquick=500)
    chk.extra["bounded_states_replayed"] = nst
    chk.assumptions = [
        "TLC, the CommunityModules and the JSON bridge are correct",
        "the reference presence of the derived graph is a TLA+ function (spec/Derived.tla) of the source graph's "
        "observed has_interaction table; well-formedness of the derived graph is judged against its own observed presence",
        "object identity / deep-copy isolation is exercised by the harness (it mutates the derived graph and re-observes the source); "
        "the specification only states that the source's raw observation is unchanged",
    ]
    what = {"C06": "every window f<=t over the observation grid (thorough; 5 sampled windows in the quick tier), t_to omitted, "
                   "t_to<t_from, the functional wrapper, and slices of slices for sampled window pairs",
            "C09": "write_snapshots to a plain / .gz / .bz2 path or an open binary file with delimiter in {' ', ',', tab, ';'} and "
                   "encoding in {utf-8, latin-1}; the bytes are tokenised strictly by the harness; read_snapshots with matching parameters",
            "C10": "write_interactions / read_interactions with the same targets, delimiters and encodings",
            "C11": "node_link_data -> json.dumps -> json.loads -> node_link_graph, default and custom attrs['id'], with and without the "
                   "'directed' key in the data and both values of the directed argument; node attributes incl. nested lists/dicts, graph attributes",
            "C16": "to_directed on undirected states, to_undirected with reciprocal False/True on directed states, followed by a "
                   "mutation of the result (node attribute values incl. nested lists/dicts, graph attributes, a new interaction) and "
                   "a re-observation of the source"}[prop]
    rule = ("each case is one (graph state, constructor call): states are rebuilt from TLC witness histories of the bounded "
            "model (self-loops, reciprocal pairs) or seeded random histories, decorated with node attributes and an isolated "
            "node; " + what + "; non-trivial = source graph has at least one interaction; distinct = distinct digests of "
            "(source observation, call)")
    return chk.finish(rule, exhaustive=(tier == "thorough"))
