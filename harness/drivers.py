"""Drivers: turn abstract call sequences into traces recorded from the real code."""
import copy
import random

from . import core
from .core import NoEnd, NoT


def call_times(c):
    ts = []
    if c.get("t", NoT) != NoT:
        ts.append(c["t"])
    if c.get("e", NoEnd) != NoEnd:
        ts.append(c["e"])
    for k in ("f", "g"):
        if k in c and c[k] not in (NoT, NoEnd):
            ts.append(c[k])
    return ts


def call_nodes(c):
    ns = []
    for k in ("u", "v", "n"):
        if k in c:
            ns.append(c[k])
    for p in c.get("ps", ()):
        ns.extend(p)
    ns.extend(c.get("ns", ()))
    return ns


def grid_of(calls, extra=()):
    ts = [t for c in calls for t in call_times(c)] + list(extra)
    if not ts:
        return (-1, 2)
    return (min(ts) - 1, max(ts) + 2)


def known_of(calls, extra=()):
    ns = sorted(set(n for c in calls for n in call_nodes(c)) | set(extra))
    return ns or [1]


FORMS = {
    "add_interaction": ("method", "positional"),
    "add_interactions_from": ("method", "iterator"),
    "add_path": ("method", "function", "method_iter", "function_iter"),
    "add_star": ("method", "function", "method_iter", "function_iter"),
    "add_cycle": ("method", "function", "method_iter", "function_iter"),
    "add_node": ("method",),
    "clear": ("method",),
    "clear_edges": ("method",),
    "touch": ("method",),
}

TOUCH_KINDS = ["convert", "convert_recip", "slice", "write", "json", "queries", "stats", "paths"]


def make_trace(directed, removal, calls, labeling="int", forks=None, fork_at=None, rng=None, known=None, grid=None,
               ret_obj=False, observe_every=True):
    """Apply `calls` to a fresh graph, one observed line per call.

    forks: calls applied (each on its own deep copy) to the final state, or to
    the state after call index fork_at[i] when given.  Returns the list of lines.
    """
    rng = rng or random.Random(0)
    allcalls = list(calls) + list(forks or ())
    known = known or known_of(allcalls)
    grid = grid or grid_of(allcalls)
    L = core.labeling(labeling).prime(max(known))
    g = core.new_graph(directed, removal)
    lines = [{"op": "new", "dir": bool(directed), "rem": bool(removal), "fork": False, "res": "ok",
              "lab": labeling, "obs": core.observe(g, L, known, grid)}]
    for c in calls:
        form = rng.choice(FORMS[c["op"]])
        res = core.apply_call(g, L, c, form)
        line = dict(c)
        line.update(fork=False, res=res, form=form)
        if observe_every:
            line["obs"] = core.observe(g, L, known, grid)
        lines.append(line)
    if not observe_every:
        lines.append({"op": "observe", "fork": False, "res": "ok", "obs": core.observe(g, L, known, grid)})
    for c in forks or ():
        h = copy.deepcopy(g)
        form = rng.choice(FORMS[c["op"]])
        res = core.apply_call(h, L, c, form)
        line = dict(c)
        line.update(fork=True, res=res, form=form, obs=core.observe(h, L, known, grid))
        lines.append(line)
    if ret_obj:
        return lines, g, L, known, grid
    return lines


def extend_trace(lines, g, L, calls, known, grid, rng, observe_every=True):
    """apply further calls to the object of an existing trace (one observed line per call)"""
    for c in calls:
        form = rng.choice(FORMS[c["op"]])
        res = core.apply_call(g, L, c, form)
        line = dict(c)
        line.update(fork=False, res=res, form=form)
        if observe_every:
            line["obs"] = core.observe(g, L, known, grid)
        lines.append(line)
    return lines


# --------------------------------------------------------------------------- random call generators
def rand_add(rng, nnodes, tmax, loops=True, p_interval=0.45, p_missing=0.03, p_degenerate=0.05):
    u = rng.randint(1, nnodes)
    v = rng.randint(1, nnodes)
    if not loops:
        while v == u:
            v = rng.randint(1, nnodes)
    x = rng.random()
    if x < p_missing:
        return {"op": "add_interaction", "u": u, "v": v, "t": NoT, "e": NoEnd}
    t = rng.randint(0, tmax)
    if x < p_missing + p_degenerate:
        return {"op": "add_interaction", "u": u, "v": v, "t": t, "e": rng.randint(max(0, t - 2), t)}
    if x < p_missing + p_degenerate + p_interval:
        return {"op": "add_interaction", "u": u, "v": v, "t": t, "e": t + rng.choice([1, 1, 2, 2, 3, 4, 6])}
    return {"op": "add_interaction", "u": u, "v": v, "t": t, "e": NoEnd}


def rand_bulk(rng, nnodes, tmax):
    op = rng.choice(["add_path", "add_star", "add_cycle", "add_interactions_from"])
    t = rng.randint(0, tmax) if rng.random() > 0.05 else NoT
    if op == "add_interactions_from":
        ps = [[rng.randint(1, nnodes), rng.randint(1, nnodes)] for _ in range(rng.randint(1, 4))]
        e = NoEnd if rng.random() < 0.5 or t == NoT else t + rng.randint(0, 4)
        return {"op": op, "ps": ps, "t": t, "e": e}
    ns = [rng.randint(1, nnodes) for _ in range(rng.randint(2, 5))]
    return {"op": op, "ns": ns, "t": t, "e": NoEnd}


def rand_history(rng, nnodes, tmax, length, bulk=0.2, monotone=0.5):
    """Random call sequence; with probability `monotone` the instants drift upwards
    (otherwise most calls on a busy pair would be rejected)."""
    calls = []
    drift = rng.random() < monotone
    for i in range(length):
        hi = tmax if not drift else max(1, min(tmax, int((i + 1) * tmax / length) + 2))
        if rng.random() < bulk:
            calls.append(rand_bulk(rng, nnodes, hi))
        elif rng.random() < 0.05:
            calls.append({"op": "add_node", "n": rng.randint(1, nnodes + 1), "a": rng.randint(0, 2)})
        elif rng.random() < 0.02:
            calls.append({"op": rng.choice(["clear", "clear_edges"])})
        elif rng.random() < 0.06:
            # a read-only operation on the live object (its result is thrown away)
            calls.append({"op": "touch", "kind": rng.choice(TOUCH_KINDS)})
        else:
            calls.append(rand_add(rng, nnodes, hi))
    return calls
