"""C14: annotate_paths / path_length / path_duration.

TLC enumerates every list of paths up to a length bound over a pool with ties
in every criterion (spec/MCAnnotate.tla), proves the single-pass model against
the declarative optimum sets, and dumps the lists; each list is materialised
(tuples or lists of hop tuples, int / str nodes, shifted instants, seeded
order-preserving) and fed to the real annotate_paths; TLC judges the result."""
import os
import random

from . import core, tlaval, tlc
from .runner import Check, OUT

import dynetx.algorithms as al  # noqa: E402


def _cases(chk, maxlen):
    dst = os.path.join(tlc.SPEC, "_gen_annotate_%s_%d.cfg" % (chk.prop, os.getpid()))
    with open(os.path.join(tlc.SPEC, "MC_annotate.cfg")) as f:
        txt = f.read().replace("AMaxLen = 4", "AMaxLen = %d" % maxlen)
    with open(dst, "w") as f:
        f.write(txt)
    dump = os.path.join(OUT, "tmp", "annotate_%d.dump" % os.getpid())
    os.makedirs(os.path.dirname(dump), exist_ok=True)
    try:
        res = tlc.run_mc(dst, "MCAnnotate.tla", workers=16, timeout=3000, dump=dump)
    finally:
        os.remove(dst)
    res["cfg"] = "MC_annotate.cfg (AMaxLen=%d)" % maxlen
    chk.add_mc(res, "InvAnnotate: single-pass model = declarative optimum sets")
    cases = [[[list(h) for h in p] for p in st["plist"]] for st in tlaval.parse_dump(dump)]
    os.remove(dump)
    return cases


def job_annotate(job):
    seed, paths, lab, as_tuple = job
    L = core.labeling(lab).prime(9)
    # hop times may lie far apart (durations beyond the small-integer range): abstract instant t -> L.time(t) * mult
    # and far from 0 (epoch seconds): concrete time = L.time(t) * mult + base
    mult, base = [(1, 0), (1, 0), (1000, 0), (86400, 0), (1, 1700000000), (60, 1700000000)][seed % 6]

    def conc(p):
        hops = [(L.node(a), L.node(b), L.time(t) * mult + base) for a, b, t in p]
        return tuple(hops) if as_tuple else hops

    def unmul(x, off=0):
        x = core.as_int(x)
        if x is None:
            return None
        x -= off
        return x // mult if x % mult == 0 else None

    def proj(p):
        out = []
        for h in p:
            ct = unmul(h[2], base)
            out.append([L.anode(h[0]), L.anode(h[1]), L.atime(ct) if ct is not None else -10 ** 6])
        return out

    cp = [conc(p) for p in paths]
    line = {"op": "annotate", "fork": False, "paths": paths, "lab": lab, "as_tuple": as_tuple}
    try:
        out = al.annotate_paths(cp)
        line["keys"] = sorted(out.keys())
        line["out"] = {k: [proj(p) for p in (out.get(k) or [])] for k in
                       ("shortest", "fastest", "foremost", "fastest_shortest", "shortest_fastest")}
        def num(x):            # any integral scalar (numpy's included); anything else is a value no clause accepts
            return core.as_int(x) if core.as_int(x) is not None else -10 ** 6
        line["lens"] = [num(al.path_length(p)) for p in cp]
        line["durs"] = [unmul(num(al.path_duration(p))) if unmul(num(al.path_duration(p))) is not None else -10 ** 6 for p in cp]
        line["mult"] = mult
        line["base"] = base
        line["res"] = "ok"
    except Exception as ex:
        line["res"] = core.exc_name(ex)
        line["keys"] = []
        line["out"] = {k: [] for k in ("shortest", "fastest", "foremost", "fastest_shortest", "shortest_fastest")}
        line["lens"] = []
        line["durs"] = []
    return [line]


def run(prop, tier, seed):
    chk = Check(prop, tier, seed)
    rng = random.Random(seed)
    cases = _cases(chk, 4 if tier == "quick" else 5)
    if tier == "quick":
        cases = rng.sample(cases, min(len(cases), 2500))
    jobs = [(rng.randrange(1 << 30), c, rng.choice(["int", "zero", "str", "neg", "big", "tuple", "mixed", "mixed", "under", "npt"]), rng.random() < 0.6) for c in cases]
    chk.run_jobs(job_annotate, jobs, "ann", chunk=3000)
    chk.assumptions = ["TLC, the CommunityModules and the JSON bridge are correct",
                       "returned paths are compared as sets of hop sequences (multiplicity of duplicates is not constrained)"]
    rule = ("every non-empty list of length <= %d over a pool of 8 paths (1-3 hops, ties in hop count, duration and arrival, "
            "duplicates, every order) enumerated by TLC; each list is fed to the real annotate_paths as tuples or lists of hop "
            "tuples under int / 0-based / str / negative / large / tuple / mixed-type (mutually non-comparable ids) / '_'-string / numpy-integer labelings; non-trivial = list of >= 2 paths; distinct = distinct digests"
            % (4 if tier == "quick" else 5))
    return chk.finish(rule, exhaustive=(tier == "thorough"))
