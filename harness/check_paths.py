"""C12, C13, C15: time-respecting paths and the temporal DAG.

TLC enumerates every temporal graph of a bounded domain (spec/MCPaths.tla),
proves that the implementation-shaped model of temporal_dag +
time_respecting_paths returns exactly the declarative path set of
spec/Paths.tla, and dumps the graphs; each graph is built on the real class,
every (u, v, window) query is run against the real algorithms and the results
are judged by TLC with the declarative definitions, relative to the presence
relation observed on the real graph."""
import os
import random

import numpy as np

from . import core, drivers, tlaval, tlc
from .core import NoT
from .runner import Check, OUT

import dynetx.algorithms as al  # noqa: E402

CFGS = {
    # u3t4_gen: 3 nodes x 4 instants (pairs with several runs, non-first runs of more than one instant), generation only
    "quick": ["MC_paths_u3.cfg", "MC_paths_loops.cfg", "MC_paths_u3t4_gen.cfg"],
    "thorough": ["MC_paths_u3.cfg", "MC_paths_u3t4.cfg", "MC_paths_d3.cfg", "MC_paths_loops.cfg", "MC_paths_sparse4.cfg"],
}
PLABS = ["int", "zero", "str", "neg", "big", "under", "tuple", "mixed", "npt", "cross0"]


def _graphs(chk, cfg):
    dump = os.path.join(OUT, "tmp", "paths_%s_%d.dump" % (cfg, os.getpid()))
    os.makedirs(os.path.dirname(dump), exist_ok=True)
    res = tlc.run_mc(cfg, "MC_paths.tla", workers=16, timeout=3000, dump=dump)
    chk.add_mc(res, "InvPaths, InvValid, InvDag: algorithm model = declarative path set on every graph of the domain")
    directed = "PDir = TRUE" in open(os.path.join(tlc.SPEC, cfg)).read()
    out = []
    for st in tlaval.parse_dump(dump):
        out.append((directed, sorted(st["pg"])))
    os.remove(dump)
    return out


def _ops(directed, triples, rng):
    """the runs of the graph as add_interaction calls (interval or point adds), pairs in a seeded order"""
    per = {}
    for (a, b, t) in triples:
        if not directed and a > b:
            continue
        per.setdefault((a, b), set()).add(t)
    items = list(per.items())
    rng.shuffle(items)
    ops = []
    for (a, b), ts in items:
        ts = sorted(ts)
        i = 0
        while i < len(ts):
            j = i
            while j + 1 < len(ts) and ts[j + 1] == ts[j] + 1:
                j += 1
            ops.append((a, b, ts[i], ts[j] + 1 if (j > i or rng.random() < 0.5) else None))
            i = j + 1
    return ops


def _apply(g, L, ops):
    for (a, b, t, e) in ops:
        if e is None:
            g.add_interaction(L.node(a), L.node(b), t=L.time(t))
        else:
            g.add_interaction(L.node(a), L.node(b), t=L.time(t), e=L.time(e))


def _build(directed, triples, L, rng):
    g = core.new_graph(directed, True)
    _apply(g, L, _ops(directed, triples, rng))
    return g


def _hops(L, path):
    return [[L.anode(h[0]), L.anode(h[1]), L.atime(h[2])] for h in path]


def _trp(g, L, u, v, s, e, sample):
    q = {"fn": "trp", "u": u, "v": v, "s": s, "e": e, "sample": int(round(sample * 100)), "paths": []}
    try:
        r = al.time_respecting_paths(g, L.node(u), v=None if v == 0 else L.node(v),
                                     start=None if s == NoT else L.time(s), end=None if e == NoT else L.time(e),
                                     sample=sample)
        q["res"] = "ok"
        if isinstance(r, dict):
            for k, plist in r.items():
                for p in plist:
                    q["paths"].append({"ku": L.anode(k[0]), "kw": L.anode(k[1]), "h": _hops(L, p),
                                       "tup": isinstance(p, tuple)})
        elif len(r) != 0:
            q["res"] = "shape"
    except Exception as ex:
        q["res"] = core.exc_name(ex)
        q["paths"] = []
    return q


def _atrp(g, L, s, e, m):
    q = {"fn": "atrp", "s": s, "e": e, "m": m, "paths": []}
    try:
        r = al.all_time_respecting_paths(g, start=None if s == NoT else L.time(s), end=None if e == NoT else L.time(e),
                                         min_t=None if m == NoT else L.time(m))
        q["res"] = "ok"
        for k, plist in r.items():
            for p in plist:
                q["paths"].append({"ku": L.anode(k[0]), "kw": L.anode(k[1]), "h": _hops(L, p), "tup": isinstance(p, tuple)})
    except Exception as ex:
        q["res"] = core.exc_name(ex)
        q["paths"] = []
    return q


def _occ(L, names, name):
    x, _, t = str(name).rpartition("_")
    return [names[x], L.atime(int(t))]


def _dag(g, L, known, u, v, s, e):
    q = {"fn": "dag", "u": u, "v": v, "s": s, "e": e, "edges": [], "sources": [], "targets": [], "dnodes": []}
    names = {str(L.node(n)): n for n in known}
    try:
        DG, src, tgt, _nt, _tt = al.temporal_dag(g, L.node(u), v=None if v == 0 else L.node(v),
                                                 start=None if s == NoT else L.time(s), end=None if e == NoT else L.time(e))
    except Exception as ex:       # the call itself raised: that is the result kind (never judged by its message)
        q["res"] = core.exc_name(ex)
        return q
    try:
        root = L.node(u)
        q["edges"] = [[_occ(L, names, a), _occ(L, names, b)] for a, b in DG.edges()]
        # the library keeps the raw root id as an isolated node of the DAG: it is no occurrence
        q["dnodes"] = [_occ(L, names, n) for n in DG.nodes() if not (n == root and DG.degree(n) == 0)]
        q["sources"] = [_occ(L, names, n) for n in src]
        q["targets"] = [_occ(L, names, n) for n in tgt]
        q["res"] = "ok"
    except Exception as ex:       # occurrence names that do not decode as <node>_<instant>
        q["res"] = "decode:" + core.exc_name(ex)
        q["edges"], q["dnodes"], q["sources"], q["targets"] = [], [], [], []
    return q


def _paths_line(g, L, known, grid, triples, tier, rng, directed):
    """one 'paths' line: the observation of g and every (u, v, window) query on it"""
    lo, hi = grid
    ts = sorted({t for (_, _, t) in triples})
    obs = core.observe(g, L, known, grid)
    qs = []
    wins = [(NoT, NoT)] + [(s, e) for s in range(lo, hi) for e in range(lo, hi)]
    half = [(s, NoT) for s in range(lo, hi)] + [(NoT, e) for e in range(lo, hi)]     # one bound given, the other defaulted
    if tier == "quick":
        wins = [(NoT, NoT)] + rng.sample(wins[1:], min(len(wins) - 1, 7)) + rng.sample(half, min(len(half), 3))
    else:
        wins = wins + half
    present = [n for n in known if g.has_node(L.node(n))]
    for u in present:
        for v in [0] + present:
            for (s, e) in wins:
                if s != NoT and e != NoT and s > e and rng.random() < 0.7:
                    continue
                qs.append(_trp(g, L, u, v, s, e, 1))
                if rng.random() < 0.1:
                    qs.append(_trp(g, L, u, v, s, e, 0.5))
                if tier == "thorough" or rng.random() < 0.5:
                    qs.append(_dag(g, L, known, u, v, s, e))
    if not present:
        qs.append(_dag(g, L, known, known[0], 0, NoT, NoT))
        qs.append(_trp(g, L, known[0], 0, NoT, NoT, 1))
    ids = obs["ids"]          # windows inside the observed snapshot range
    valid = [(s, e) for (s, e) in wins if s == NoT or (ids and ids[0] <= s <= e <= ids[-1])]
    for (s, e) in (valid if tier == "thorough" else valid[:3]):
        for m in [NoT] + (ts if tier == "thorough" else (ts[:1] + ids[-1:])):
            qs.append(_atrp(g, L, s, e, m))
    return {"op": "paths", "fork": False, "res": "ok", "triples": [list(t) for t in triples], "obs": obs, "qs": qs}


def job_graph(job):
    """One graph of the domain on one real object.  A seeded share of the jobs queries the *same object* at several points
    of its life: after a chronological prefix of its runs, after all of them, and after clear() + a refill with a
    node-permuted copy of the graph (same numbers of nodes, pairs and snapshot ids): results may never depend on what an
    earlier query saw."""
    seed, directed, triples, lab, tier, nodes = job
    rng = random.Random(seed)
    np.random.seed(seed % (2 ** 32))
    known = list(nodes)
    L = core.labeling(lab).prime(max(known) + 1)
    ts = sorted({t for (_, _, t) in triples})
    grid = (min(ts) - 1, max(ts) + 2) if ts else (-1, 2)
    # a seeded share of the graphs is accumulative (edge_removal=False): the statements speak of "present in G", whatever
    # the mode; the triples are then only the instants of the adds, the presence relation is the observed one
    removal = rng.random() >= 0.2
    head = {"op": "new", "dir": bool(directed), "rem": removal, "fork": False, "res": "ok", "lab": lab,
            "obs": core.observe(core.new_graph(directed, removal), L, known, grid)}
    lines = [head]
    ops = _ops(directed, triples, rng)
    g = core.new_graph(directed, removal)
    staged = len(ops) >= 2 and rng.random() < 0.4
    if staged:
        # chronological growth: runs sorted by their start (stable: the order of a pair's own runs is kept)
        ops.sort(key=lambda o: o[2])
        k = rng.randint(1, len(ops) - 1)
        _apply(g, L, ops[:k])
        part = set()
        for (a, b, t, e) in ops[:k]:
            for x in range(t, e if e is not None else t + 1):
                part.add((a, b, x))
                if not directed:
                    part.add((b, a, x))
        lines.append(_paths_line(g, L, known, grid, sorted(part), "quick", rng, directed))
        _apply(g, L, ops[k:])
    else:
        _apply(g, L, ops)
    lines.append(_paths_line(g, L, known, grid, triples, tier, rng, directed))
    if staged and rng.random() < 0.6:
        perm = list(known)
        rng.shuffle(perm)
        pm = dict(zip(known, perm))
        tr2 = sorted({(pm[a], pm[b], t) for (a, b, t) in triples})
        g.clear()
        _apply(g, L, _ops(directed, tr2, rng))
        lines.append(_paths_line(g, L, known, grid, tr2, "quick", rng, directed))
    return lines


def run(prop, tier, seed):
    chk = Check(prop, tier, seed, prefixes=(prop,))
    rng = random.Random(seed)
    jobs = []
    for cfg in CFGS[tier]:
        graphs = _graphs(chk, cfg)
        nodes = sorted({n for _, tr in graphs for (a, b, _) in tr for n in (a, b)}) or [1, 2, 3]
        if tier == "quick":
            graphs = rng.sample(graphs, min(len(graphs), 220 if "gen" not in cfg else 120))
        elif len(graphs) > 5000:
            graphs = rng.sample(graphs, 2500)       # the 4-node sparse domain: TLC checks all 15,625, 2,500 are replayed
        for i, (directed, triples) in enumerate(graphs):
            jobs.append((rng.randrange(1 << 30), directed, triples, PLABS[(i + seed) % len(PLABS)], tier, nodes))
    # design level only: the algorithm model on *accumulative* graphs (interactions persist between the snapshot ids)
    for cfg in (["MC_paths_acc.cfg"] if tier == "quick" else ["MC_paths_acc.cfg", "MC_paths_accd.cfg"]):
        res = tlc.run_mc(cfg, "MC_paths.tla", workers=8, timeout=3000)
        chk.add_mc(res, "InvPaths, InvValid, InvDag on accumulative graphs: algorithm model = declarative path set over the snapshot ids")
    # larger random graphs (4-6 nodes, up to 6 instants)
    for _ in range(30 if tier == "quick" else 600):
        nn = rng.choice([4, 5, 6])
        tm = rng.choice([3, 4, 5])
        directed = rng.random() < 0.5
        tr = set()
        for _ in range(rng.randint(3, 3 * nn)):
            a, b = rng.randint(1, nn), rng.randint(1, nn)
            if a == b and rng.random() < 0.8:
                continue
            t0 = rng.randint(0, tm)
            for t in range(t0, min(tm, t0 + rng.choice([0, 0, 1, 2])) + 1):
                tr.add((a, b, t))
                if not directed:
                    tr.add((b, a, t))
        jobs.append((rng.randrange(1 << 30), directed, sorted(tr), rng.choice(PLABS), "quick", list(range(1, nn + 1))))
    chk.run_jobs(job_graph, jobs, "paths", chunk=256)
    chk.assumptions = [
        "TLC, the CommunityModules and the JSON bridge are correct",
        "the reference path set is computed by TLC (AllPaths in spec/Paths.tla) from the has_interaction table and snapshot ids "
        "observed on the real graph; occurrence names of the DAG are decoded by splitting str(name) at the last '_' and looking "
        "str(node id) up among the known nodes (ids may themselves contain '_')",
        "sample < 1 draws from numpy's global RNG, seeded per graph",
    ]
    rule = ("every temporal graph of the TLC domain(s) %s is built on the real class (runs added in a seeded order, as interval or "
            "point adds) under int / 0-based / str / negative / large / '_'-containing str / tuple / mixed-type labelings; for every root u present in the graph, every target v "
            "(omitted, each node incl. v = u) and windows over the grid (defaults, valid, invalid, start > end) the real "
            "time_respecting_paths (sample 1 and 0.5), temporal_dag and all_time_respecting_paths (min_t omitted / each id) are "
            "called; plus seeded random graphs with 4-6 nodes. Non-trivial = graph with at least one interaction; distinct = "
            "distinct digests of (observation, queries)" % ",".join(CFGS[tier]))
    return chk.finish(rule, exhaustive=(tier == "thorough"))
