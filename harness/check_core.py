"""Checks of the core state machine: C01, C03, C04, C05, C07, C08.

1. TLC model-checks the implementation-shaped model (spec/MCCore.tla) against
   the clauses of the property, exhaustively in a bounded universe.
2. spec -> code: every reachable abstract state of that universe (with the
   BFS-shortest witness history TLC kept for it) is rebuilt on the real class,
   and calls of the model's alphabet are applied to deep copies of it.
3. code -> spec: seeded random histories on larger universes.
All recorded traces are judged by TLC (spec/Trace.tla) with the same clauses.
"""
import copy
import os
import random

from . import core, drivers, tlaval, tlc
from .core import NoEnd, NoT
from .runner import Check, OUT

INVS = {
    "C01": ["InvC01", "InvC01c", "InvRefines"],
    "C03": ["InvC03", "InvRefines"],
    "C04": ["InvC04"],
    "C05": ["InvC05"],
    "C07": ["InvC07", "InvC01c"],
    "C08": ["InvC08", "InvRefines"],
}

CFGS = {
    "quick": ["MC_core_tiny.cfg"],
    "thorough": ["MC_core_small.cfg", "MC_core_loops.cfg", "MC_core_3n.cfg"],
}

LABS = ["int", "zero", "int_rev", "neg", "big", "str", "tuple", "mixed", "npt", "cross0"]


def _norm_call(c):
    d = dict(c)
    if "ns" in d:
        d["ns"] = list(d["ns"])
    if "ps" in d:
        d["ps"] = [list(p) for p in d["ps"]]
    return d


def mc_states(check, cfg, invs, want_states=True):
    """Run one MCCore configuration restricted to `invs`; return (states, alphabet)."""
    src = os.path.join(tlc.SPEC, cfg)
    tmpdir = os.path.join(OUT, "tmp")
    os.makedirs(tmpdir, exist_ok=True)
    name = "%s_%s_%d.cfg" % (os.path.splitext(cfg)[0], check.prop, os.getpid())
    dst = os.path.join(tlc.SPEC, "_gen_" + name)
    with open(src) as f:
        lines = f.read().splitlines()
    lines = [ln for ln in lines if not ln.startswith("INVARIANT")] + ["INVARIANT " + i for i in invs]
    with open(dst, "w") as f:
        f.write("\n".join(lines) + "\n")
    dump = os.path.join(tmpdir, name + ".dump")
    try:
        res = tlc.run_mc(dst, "MC_core.tla", workers=8, timeout=3000, dump=dump if want_states else None,
                         tag=name)
    finally:
        os.remove(dst)
    res["cfg"] = cfg
    check.add_mc(res, "invariants %s of the implementation-shaped model" % ",".join(invs))
    alphabet = []
    for txt in tlc._extract_prints(res["full_output"], "ALPHABET"):
        alphabet = [_norm_call(dict(c)) for c in tlaval.parse(txt)[1]]
        break
    alphabet.sort(key=lambda c: repr(sorted(c.items())))
    states = []
    if want_states:
        for st in tlaval.parse_dump(dump):
            states.append({"dir": st["G"]["dir"], "rem": st["G"]["rem"],
                           "hist": [_norm_call(c) for c in st["hist"]]})
        os.remove(dump)
    return states, alphabet


# ------------------------------------------------------------------------- jobs (run in worker processes)
def job_state(job):
    """witness history, then every fork call on a deep copy of the reached state"""
    seed, st, forks, lab, known, grid = job
    rng = random.Random(seed)
    return drivers.make_trace(st["dir"], st["rem"], st["hist"], labeling=lab, forks=forks, rng=rng,
                              known=known, grid=grid)


def job_reject(job):
    """witness, then one call that raises (not a fork), then continuations as forks"""
    seed, st, cands, forks, lab, known, grid = job
    rng = random.Random(seed)
    L = core.labeling(lab).prime(max(known))
    g = core.new_graph(st["dir"], st["rem"])
    for c in st["hist"]:
        core.apply_call(g, L, c)
    out = []
    rng.shuffle(cands)
    for c in cands:
        h = copy.deepcopy(g)
        if core.apply_call(h, L, c) != "ok":
            out.append(drivers.make_trace(st["dir"], st["rem"], st["hist"] + [c], labeling=lab, forks=forks,
                                          rng=rng, known=known, grid=grid))
            if len(out) >= 2:
                break
    return out


def job_random(job):
    seed, directed, removal, nnodes, tmax, length, lab = job
    rng = random.Random(seed)
    if length > 100:
        # a long history on a large universe: observed once, at the end (plus forks)
        calls = [c for c in drivers.rand_history(rng, nnodes, tmax, length, bulk=0.1) if c["op"] not in ("clear", "clear_edges")]
        forks = [drivers.rand_add(rng, nnodes, tmax) for _ in range(3)]
        return drivers.make_trace(directed, removal, calls, labeling=lab, forks=forks, rng=rng, observe_every=False)
    calls = drivers.rand_history(rng, nnodes, tmax, length)
    nforks = 6
    forks = [drivers.rand_add(rng, nnodes, tmax) for _ in range(nforks)] + [drivers.rand_bulk(rng, nnodes + 1, tmax) for _ in range(3)]
    return drivers.make_trace(directed, removal, calls, labeling=lab, forks=forks, rng=rng)


def job_history(job):
    """one given call sequence on one graph, observed after every call"""
    seed, directed, removal, calls, lab = job[:5]
    every = job[5] if len(job) > 5 else True
    return drivers.make_trace(directed, removal, calls, labeling=lab, rng=random.Random(seed), observe_every=every)


def apalache_merge_lemma(chk):
    """extra (never the basis of the claimed level): Apalache proves the per-pair Merge lemma for unbounded
    integers and timelines of up to 5 intervals (spec/apalache/ApaMerge.tla)"""
    import shutil
    import subprocess
    out = os.path.join(OUT, "tmp", "apa_%d" % os.getpid())
    try:
        p = subprocess.run(["apalache-mc", "check", "--init=Init", "--next=Next", "--inv=Lemma", "--length=0",
                            "--out-dir=" + out, "ApaMerge.tla"], cwd=os.path.join(tlc.SPEC, "apalache"),
                           stdout=subprocess.PIPE, stderr=subprocess.STDOUT, text=True, timeout=900)
        verdict = "NoError" if "The outcome is: NoError" in p.stdout else ("Error" if "The outcome is: Error" in p.stdout else "did not run")
    except Exception as ex:  # noqa: B902
        verdict = "did not run: %s" % type(ex).__name__
    shutil.rmtree(out, ignore_errors=True)
    chk.extra["apalache_merge_lemma"] = {"module": "spec/apalache/ApaMerge.tla", "outcome": verdict,
                                         "scope": "unbounded integers, timelines of up to 5 intervals, length 0"}
    if verdict == "Error":
        chk.violations.append({"kind": "model", "clause": "ApaMerge.Lemma", "replay": os.path.join(tlc.SPEC, "apalache", "ApaMerge.tla")})


def apalache_add_invariant(chk):
    """extra (never the basis of the claimed level): Apalache proves that the per-pair invariant behind C03 / C05
    (canonical timeline, '+' exactly at the run starts, '-' only at run ends + 1, long runs closed) is inductive for the
    model's add_interaction over unbounded integers (spec/apalache/ApaAdd.tla), with and without the pinned KF1 rule"""
    import shutil
    import subprocess
    out = os.path.join(OUT, "tmp", "apa_add_%d" % os.getpid())
    verdicts = []
    try:
        for args in (["--init=IndInit", "--inv=IndInv", "--length=1"], ["--init=Init", "--inv=IndInv", "--length=0"]):
            p = subprocess.run(["apalache-mc", "check", "--cinit=CInit", "--next=Next"] + args + ["--out-dir=" + out, "ApaAdd.tla"],
                               cwd=os.path.join(tlc.SPEC, "apalache"), stdout=subprocess.PIPE, stderr=subprocess.STDOUT,
                               text=True, timeout=900)
            verdicts.append("NoError" if "The outcome is: NoError" in p.stdout else
                            ("Error" if "The outcome is: Error" in p.stdout else "did not run"))
    except Exception as ex:  # noqa: B902
        verdicts.append("did not run: %s" % type(ex).__name__)
    shutil.rmtree(out, ignore_errors=True)
    chk.extra["apalache_add_inductive_invariant"] = {
        "module": "spec/apalache/ApaAdd.tla", "outcome": verdicts,
        "scope": "IndInv /\\ Add => IndInv' (length 1 from any state satisfying IndInv) and Init => IndInv; unbounded integers, "
                 "timelines of up to 5 intervals, Strict in {TRUE, FALSE}"}
    if "Error" in verdicts:
        chk.violations.append({"kind": "model", "clause": "ApaAdd.IndInv", "replay": os.path.join(tlc.SPEC, "apalache", "ApaAdd.tla")})


def sim_stage(chk, rng, modes_wanted, num):
    """beyond the exhaustive bounds: TLC -simulate behaviours of the model (4 nodes with self-loops, instants 0..8,
    invariants checked along the way) are replayed into the real classes and validated"""
    res = tlc.run_mc("MC_core_sim.cfg", "MC_core.tla", workers=16, timeout=3000, simulate="num=%d" % num, depth=25,
                     seed=chk.seed + 11, tag="sim-%s" % chk.prop)
    if res.get("violated"):
        chk.add_mc(res, "simulation of the model, invariants of all core properties")
        return
    beh = []
    for txt in tlc._extract_prints(res["full_output"], "SIM"):
        v = tlaval.parse(txt)
        beh.append({"dir": v[1], "rem": v[2], "hist": [_norm_call(c) for c in v[3]]})
    chk.extra["simulated_behaviours"] = {"config": "MC_core_sim.cfg", "behaviours": len(beh), "depth": 25,
                                         "tlc_wall_s": res["wall_s"]}
    known = [1, 2, 3, 4]
    jobs = []
    for b in beh:
        if b["rem"] not in modes_wanted:
            continue
        grid = drivers.grid_of(b["hist"])
        forks = [drivers.rand_add(rng, 4, 8) for _ in range(4)]
        grid = drivers.grid_of(b["hist"] + forks)
        jobs.append((rng.randrange(1 << 30), b, forks, rng.choice(LABS), known, grid))
    chk.run_jobs(job_state, jobs, "sim", chunk=400)


def repo_test_traces(chk):
    """code -> spec on realistic usage: the repository's own tests run under the tracer plugin
    (harness/tracer_plugin.py, DYNETX_VERIF=1); every graph they build becomes one trace"""
    import json
    import subprocess
    import sys
    out = os.path.join(OUT, "tmp", "repo_traces_%s_%d.json" % (chk.prop, os.getpid()))
    os.makedirs(os.path.dirname(out), exist_ok=True)
    env = dict(os.environ, DYNETX_VERIF="1", DYNETX_VERIF_TRACES=out, PYTHONPATH=tlc.VERIF, DYNETX_ROOT=core.ROOT,
               PYTHONDONTWRITEBYTECODE="1")
    p = subprocess.run([sys.executable, "-m", "pytest", "-q", "-x", "-p", "no:cacheprovider", "-p", "harness.tracer_plugin",
                        "dynetx/test"], cwd=core.ROOT, env=env, stdout=subprocess.PIPE, stderr=subprocess.STDOUT, text=True)
    chk.extra["repo_tests_under_tracer"] = p.stdout.strip().splitlines()[-1] if p.stdout.strip() else "no output"
    if not os.path.exists(out):
        chk.extra["repo_test_traces"] = 0
        return
    with open(out) as f:
        traces = json.load(f)
    os.remove(out)
    chk.extra["repo_test_traces"] = len(traces)
    verdicts = tlc.validate(traces, "%s-repotests" % chk.prop)
    chk.judge(traces, verdicts)


def run(prop, tier, seed):
    chk = Check(prop, tier, seed)
    rng = random.Random(seed)
    modes_wanted = {"C08": [False], "C07": [True, False]}.get(prop, [True])
    n_states = n_edges = 0
    if prop in ("C01", "C03"):
        res = tlc.run_mc("MC_temporal.cfg", "MCTemporal.tla", workers=8, timeout=900)
        chk.add_mc(res, "Merge lemma: merging a non-rejected span into a canonical timeline gives the canonical timeline of the union "
                        "(all 1,024 canonical timelines over 0..9 x all spans)")
    for cfg in CFGS[tier]:
        states, alphabet = mc_states(chk, cfg, INVS[prop])
        states = [s for s in states if s["rem"] in modes_wanted]
        nmax = max([n for c in alphabet for n in drivers.call_nodes(c)] or [2])
        known = list(range(1, nmax + 1))
        grid = drivers.grid_of(alphabet)
        per_state = len(alphabet) if tier == "thorough" else 14
        jobs = []
        for i, st in enumerate(states):
            forks = alphabet if per_state >= len(alphabet) else rng.sample(alphabet, per_state)
            lab = LABS[(i + seed) % len(LABS)]
            n_states += 1
            n_edges += len(forks)
            if prop == "C07":
                cands = [c for c in alphabet]
                jobs.append((rng.randrange(1 << 30), st, cands, forks if tier == "thorough" else forks[:8], lab, known, grid))
            else:
                jobs.append((rng.randrange(1 << 30), st, forks, lab, known, grid))
        if prop == "C07":
            if tier == "quick":
                jobs = rng.sample(jobs, min(len(jobs), 250))
            chk.run_jobs(job_reject, jobs, "rej-" + cfg, chunk=150)
        else:
            chk.run_jobs(job_state, jobs, "st-" + cfg, chunk=400 if tier == "thorough" else 1000)
    # random histories beyond the bounds
    nrand = 300 if tier == "quick" else 6000
    jobs = []
    for i in range(nrand):
        directed = rng.random() < 0.5
        removal = rng.choice(modes_wanted)
        nn = rng.choice([2, 3, 4, 6, 10])
        tmax = rng.choice([4, 8, 20, 40])
        jobs.append((rng.randrange(1 << 30), directed, removal, nn, tmax, rng.randint(2, 25 if tier == "quick" else 40),
                     rng.choice(LABS)))
    for i in range(6 if tier == "quick" else 120):
        jobs.append((rng.randrange(1 << 30), rng.random() < 0.5, rng.choice(modes_wanted), rng.choice([15, 25]),
                     rng.choice([120, 250]), rng.choice([120, 180]), rng.choice(["int", "zero", "neg", "big", "str"])))
    chk.run_jobs(job_random, jobs, "rand", chunk=1500)
    if prop in ("C08", "C01", "C04", "C05"):
        # an object that is emptied and used again at earlier instants: nothing may survive clear() / clear_edges()
        cjobs = []
        for _ in range(30 if tier == "quick" else 400):
            nn, tmax = rng.choice([2, 3, 4]), rng.choice([6, 10])
            first = [c for c in drivers.rand_history(rng, nn, tmax, rng.randint(3, 8)) if c["op"] != "touch"]
            if rng.random() < 0.5:
                again = [c for c in drivers.rand_history(rng, nn, max(2, tmax // 3), rng.randint(2, 6), monotone=1.0) if c["op"] != "touch"]
            else:
                # the same history moved in time: as many distinct instants as before, all of them different
                k = rng.choice([-3, -2, 2, tmax + 3])
                again = [dict(c, **{f: c[f] + k for f in ("t", "e") if f in c and c[f] not in (core.NoT, core.NoEnd)}) for c in first
                         if c["op"] not in ("clear", "clear_edges")]
            calls = first + [{"op": "touch", "kind": "queries"}, {"op": rng.choice(["clear", "clear_edges"])}] + again
            # half of them observed only at the end (no query between the clear and the refill)
            cjobs.append((rng.randrange(1 << 30), rng.random() < 0.5, rng.choice(modes_wanted), calls, rng.choice(LABS),
                          rng.random() < 0.5))
        chk.run_jobs(job_history, cjobs, "reuse", chunk=1500)
    repo_test_traces(chk)
    if prop == "C08":
        # "all snapshot queries of C02 follow that presence": the C02 query battery on accumulative states (clauses C02_*
        # of spec/Queries.tla, judged against the observed presence; counted under C08 here)
        from . import check_c02
        chk.prefixes = ("C08", "C02_")
        bjobs = []
        for cfg in CFGS[tier]:
            states, alphabet = mc_states(chk, cfg, ["InvRefines"])
            states = [s for s in states if not s["rem"] and s["hist"]]
            nmax = max([n for c in alphabet for n in drivers.call_nodes(c)] or [2])
            if tier == "quick":
                states = rng.sample(states, min(len(states), 60))
            for i, st in enumerate(states):
                bjobs.append((rng.randrange(1 << 30), st["dir"], False, st["hist"], LABS[(i + seed) % len(LABS)],
                              list(range(1, nmax + 1)), drivers.grid_of(alphabet)))
        for _ in range(40 if tier == "quick" else 800):
            calls = drivers.rand_history(rng, rng.choice([2, 3, 4, 5]), rng.choice([3, 5, 8]), rng.randint(2, 14))
            bjobs.append((rng.randrange(1 << 30), rng.random() < 0.5, False, calls, rng.choice(LABS), drivers.known_of(calls),
                          drivers.grid_of(calls)))
        chk.run_jobs(check_c02.job_battery, bjobs, "acc-bat", chunk=320)
        chk.extra["accumulative_query_batteries"] = len(bjobs)
    if tier == "thorough":
        sim_stage(chk, rng, modes_wanted, 25)
        if prop in ("C01", "C03"):
            apalache_merge_lemma(chk)
        if prop in ("C03", "C05"):
            apalache_add_invariant(chk)
    chk.extra["bounded_states_replayed"] = n_states
    chk.extra["state_action_pairs_replayed"] = n_edges
    chk.assumptions = [
        "TLC, the CommunityModules and the JSON bridge are correct",
        "the projection (harness/core.py) reports what the public API returned",
        "bounded exhaustiveness: every abstract state of the listed TLC configurations is rebuilt on the real class; "
        "beyond those bounds exploration is random (seeded)",
    ]
    rule = ("every reachable abstract state of the TLC configuration(s) %s is rebuilt on the real class from its "
            "witness history and %s calls of the model's alphabet are applied to deep copies of it; plus %d seeded "
            "random histories (2-10 nodes, instants up to 40, 7 node/time labelings); plus one trace per graph built by the "
            "repository's own tests, recorded by the tracer plugin. A case is a (raw observation "
            "before the call, call) pair; it is non-trivial unless it is a rejected call on the empty graph; "
            "distinct = distinct digests of (observation, call)."
            % (",".join(CFGS[tier]), "all" if tier == "thorough" else "14 sampled", nrand))
    return chk.finish(rule, exhaustive=(tier == "thorough"))
