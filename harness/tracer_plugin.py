"""pytest plugin (enabled with DYNETX_VERIF=1, loaded with -p harness.tracer_plugin):
records what the repository's own tests do to every DynGraph / DynDiGraph they
create -- every top-level call of the add family with its result kind and the
observation of the object after it -- as traces for spec/Trace.tla.

Nothing in /repo is changed: the public methods are wrapped at import time from
outside.  Only top-level calls are logged (depth counter); logging happens in
`finally`, so the error path is logged too.  With DYNETX_VERIF unset the module
does nothing."""
import json
import os
import weakref

ENABLED = os.environ.get("DYNETX_VERIF") == "1"
OUTFILE = os.environ.get("DYNETX_VERIF_TRACES", "/verif/out/tmp/repo_test_traces.json")

if ENABLED:
    from . import core
    from .core import NoEnd, NoT

    dn = core.dn
    _depth = [0]
    _traces = []          # finished + live traces (lists of lines)
    _live = {}            # id(obj) -> state
    _current_test = [""]

    class _State:
        def __init__(self, obj):
            self.L = core.Labeling("first-seen", None)
            self.map = {}
            self.times = []
            self.lines = []
            self.dead = False
            self.ref = weakref.ref(obj)

        def node(self, c):
            try:
                if c not in self.map:
                    self.map[c] = len(self.map) + 1
                    self.L._back[c] = self.map[c]
            except TypeError:
                raise
            return self.map[c]

    def _labeling_for(st):
        L = st.L
        inv = {v: k for k, v in st.map.items()}
        L.node_fn = lambda i: inv.get(i, ("unknown-node", i))
        L.shift = 0
        return L

    def _observe(obj, st):
        known = sorted(st.map.values()) or [1]
        ts = [t for t in st.times if isinstance(t, int) and not isinstance(t, bool)]
        grid = (min(ts) - 1, max(ts) + 2) if ts else (-1, 2)
        if grid[1] - grid[0] > 80 or len(known) > 14:
            return None
        return core.observe(obj, _labeling_for(st), known, grid)

    def _state(obj):
        st = _live.get(id(obj))
        if st is None or st.ref() is not obj:
            st = _State(obj)
            _live[id(obj)] = st
            _traces.append(st)
            o = _observe(obj, st)
            st.lines.append({"op": "new", "dir": bool(obj.is_directed()), "rem": bool(getattr(obj, "edge_removal", True)),
                             "fork": False, "res": "ok", "lab": "first-seen", "test": _current_test[0], "obs": o})
            # an object that is not empty when first seen cannot be judged from its history
            try:
                if obj.number_of_nodes() != 0:
                    st.dead = True
            except Exception:
                st.dead = True
        return st

    def _t(st, t):
        if t is None:
            return NoT
        if isinstance(t, bool) or not isinstance(t, int):
            raise TypeError("non-integer instant")
        st.times.append(t)
        return t

    def _e(st, e):
        if e is None:
            return NoEnd
        if isinstance(e, bool) or not isinstance(e, int):
            raise TypeError("non-integer instant")
        st.times.append(e)
        return e

    def _record(obj, build, res):
        st = _state(obj)
        if st.dead:
            return
        try:
            call = build(st)
        except Exception:
            st.dead = True          # arguments the specification does not model: stop judging this object
            return
        o = _observe(obj, st)
        if o is None:
            st.dead = True
            return
        line = dict(call)
        line.update(fork=False, res=res, form="repo-test", obs=o)
        st.lines.append(line)

    def _wrap(cls, name, build, prep=None):
        orig = cls.__dict__.get(name)
        if orig is None:
            return

        def w(self, *a, **k):
            if _depth[0] > 0:
                return orig(self, *a, **k)
            if prep is not None:
                a, k = prep(a, k)
            _state(self)
            _depth[0] += 1
            res = "ok"
            try:
                return orig(self, *a, **k)
            except BaseException as ex:
                res = type(ex).__name__
                raise
            finally:
                _depth[0] -= 1
                _record(self, lambda st: build(st, *a, **k), res)
        w.__name__ = name
        w.__doc__ = orig.__doc__
        setattr(cls, name, w)

    def _b_add(st, u, v, t=None, e=None):
        return {"op": "add_interaction", "u": st.node(u), "v": st.node(v), "t": _t(st, t), "e": _e(st, e)}

    def _b_from(st, ebunch, t=None, e=None):
        ps = [[st.node(x[0]), st.node(x[1])] for x in ebunch]
        return {"op": "add_interactions_from", "ps": ps, "t": _t(st, t), "e": _e(st, e)}

    def _b_ns(op):
        def b(st, nodes, t=None):
            return {"op": op, "ns": [st.node(n) for n in nodes], "t": _t(st, t), "e": NoEnd}
        return b

    def _b_node(st, n, **attr):
        a = attr.get("lab", 0)
        return {"op": "add_node", "n": st.node(n), "a": a if isinstance(a, int) and not isinstance(a, bool) else 0}

    def _kill(st, *a, **k):
        raise RuntimeError("unmodelled mutator")

    for _cls in (dn.DynGraph, dn.DynDiGraph):
        _wrap(_cls, "add_interaction", _b_add)
        # the ebunch may be a one-shot iterator (dn.add_path & co. pass zip objects): materialised before the call
        _wrap(_cls, "add_interactions_from", lambda st, ebunch, t=None, e=None: _b_from(st, ebunch, t, e),
              prep=lambda a, k: ((list(a[0]),) + tuple(a[1:]), k) if a else (a, dict(k, ebunch=list(k["ebunch"])) if "ebunch" in k else k))
        for _n in ("add_path", "add_star", "add_cycle"):
            _wrap(_cls, _n, _b_ns(_n))
    # inherited add_node: modelled (reference node set); other inherited mutators end the trace of the
    # object they are applied to (it is then never judged against a stale reference)
    import networkx as nx
    for _cls in (dn.DynGraph, dn.DynDiGraph):
        def _mk_node(orig):
            def add_node(self, n, **attr):
                if _depth[0] > 0:
                    return orig(self, n, **attr)
                _state(self)
                _depth[0] += 1
                res = "ok"
                try:
                    return orig(self, n, **attr)
                except BaseException as ex:
                    res = type(ex).__name__
                    raise
                finally:
                    _depth[0] -= 1
                    _record(self, lambda st: _b_node(st, n, **attr), res)
            return add_node
        setattr(_cls, "add_node", _mk_node(getattr(_cls, "add_node")))
        for _n in ("add_nodes_from", "clear", "clear_edges", "update", "update_node_attr", "update_node_attr_from"):
            def _mk_kill(orig):
                def w(self, *a, **k):
                    st = _live.get(id(self))
                    if st is not None and st.ref() is self and _depth[0] == 0:
                        st.dead = True
                    return orig(self, *a, **k)
                return w
            setattr(_cls, _n, _mk_kill(getattr(_cls, _n)))

    def pytest_runtest_setup(item):
        _current_test[0] = item.nodeid

    def pytest_sessionfinish(session, exitstatus):
        out = []
        for st in _traces:
            lines = st.lines
            # cut the trace at the first line that could not be observed
            if len(lines) >= 2 and all(ln.get("obs") is not None for ln in lines):
                out.append(lines)
        os.makedirs(os.path.dirname(OUTFILE), exist_ok=True)
        with open(OUTFILE, "w") as f:
            json.dump(out, f)
