"""Generates /verif/MANIFEST.json from one table (run: /venv/bin/python -m harness.manifest)."""
import json
import os

VERIF = os.path.dirname(os.path.dirname(os.path.abspath(__file__)))

CORE_NOTE = ("Trusted: TLC + CommunityModules; the projection harness/core.py (records what the public API returns, "
             "contains no expectations); bounded exhaustiveness (configs named in the evidence) plus seeded random "
             "histories beyond the bounds.")

CHECKS = {
    "C01": dict(
        text="TLC proves the clauses C01_a/b/c (presence = union of added spans, flattened presence, accept/reject by "
             "the documented rule only) as invariants of the implementation-shaped model of add_interaction and its "
             "bulk helpers over a bounded universe; every reachable abstract state of that universe is rebuilt on the "
             "real class from a TLC witness history and the model's call alphabet is applied to copies of it; the "
             "recorded traces (plus seeded random histories under 7 node/time labelings) are judged by TLC with the "
             "same clauses, the reference state being computed from the logged calls only.",
        design="4 C01", technique="TLA+ model + TLC invariants; TLC-generated states replayed into the code; TLC trace validation"),
    "C03": dict(
        text="Clauses C03_a-d (interval shape, canonical order with gaps, union = presence, both directions / in-out "
             "views agree) are TLC invariants of the model's stored timelines and the verdict of TLC trace validation "
             "of every replayed state/action pair and random history.",
        design="4 C03", technique="TLA+ model + TLC invariants; two-way conformance by TLC trace validation"),
    "C04": dict(
        text="Clauses C04_a-d (ids = inhabited instants ascending, exact per-snapshot counts with and without "
             "argument, avg_number_of_nodes as exact rational) as TLC invariants of the model's snapshot index and as "
             "verdict of trace validation.",
        design="4 C04", technique="TLA+ model + TLC invariants; two-way conformance by TLC trace validation"),
    "C05": dict(
        text="Clauses C05_a-g (chronological, no repeated event, '+' exactly at run starts, '-' only after a run, long "
             "runs closed, replay reconstructs presence, functional form) as TLC invariants of the model's event log "
             "and as verdict of trace validation; the pinned deviation KF1 is a guarded disjunct of the model and a "
             "predicate with taint in the trace spec.",
        design="4 C05", technique="TLA+ model + TLC invariants; two-way conformance by TLC trace validation"),
    "C07": dict(
        text="C07_a (raising call leaves the raw observation identical), C07_b (every later observation satisfies "
             "C01-C05/C08 w.r.t. the reference that ignores the rejected call) and the bulk-prefix clause are checked "
             "by TLC on the model for every call in every reachable state, and on the real code for every rejected "
             "call found in every replayed state followed by continuation calls.",
        design="4 C07", technique="TLA+ model + TLC invariants; rejected transitions replayed into the code; TLC trace validation"),
    "C08": dict(
        text="Clauses C08_a-d (presence from first add to latest snapshot id, one '+' per pair and no '-', ids = accepted "
             "add instants) as TLC invariants of the model in accumulative mode and as verdict of trace validation of "
             "replayed states and random histories on edge_removal=False graphs of both classes; the C02 query battery "
             "(clauses C02_* of spec/Queries.tla) is recorded on accumulative states as well ('all snapshot queries of "
             "C02 follow that presence').",
        design="4 C08", technique="TLA+ model + TLC invariants; two-way conformance by TLC trace validation"),
}

CHECKS["C02"] = dict(
    text="The expected value of every query entry point is a TLA+ operator (spec/Queries.tla) of the static graph "
         "{(u,v): has_interaction(u,v,t)} (union graph for t omitted). TLC proves that implementation-shaped models of "
         "the observers (seen-de-duplication, degree counts, size = sum(degree)/2, positive-degree node count, density "
         "through size) satisfy those clauses in every reachable state of the bounded model; on the code side every "
         "reachable abstract state (self-loops, reciprocal pairs, both modes, isolated attributed nodes) is rebuilt and "
         "the full battery (each entry point x each grid instant and t omitted x nbunch variants incl. unknown nodes) "
         "is recorded and judged by TLC with the same operators.",
    design="4 C02", technique="TLA+ expected-value operators; TLC invariants on model observers; TLC validation of recorded query batteries")
CHECKS["C06"] = dict(
    text="spec/Derived.tla defines the presence, node set and attributes of time_slice(G,f,t) as a function of G's "
         "observed presence; TLC judges derive-lines recorded for every reachable state of the bounded model x windows "
         "(all windows over the grid in the thorough tier), t_to omitted, t_to<t_from (ValueError), the functional "
         "wrapper and slices of slices (intersection of windows): class, presence, nodes+attributes, source unchanged, "
         "and C02-C05 on the slice relative to its own presence.",
    design="4 C06", technique="TLA+ derived-graph operators; TLC validation of recorded derive lines on TLC-generated states")
CHECKS["C16"] = dict(
    text="spec/Derived.tla defines the presence of to_directed / to_undirected(reciprocal) results; TLC judges derive-lines "
         "recorded for every reachable state of the bounded model (reciprocal pairs with different timelines, self-loops, "
         "isolated attributed nodes, nested mutable attribute values): class, presence, all nodes kept, source raw-identical "
         "after the call and after the harness mutated the copy, C02-C05 on the result; accumulative sources are "
         "converted as well (known finding KF8 explains exactly the result that has the presence of the stored intervals).",
    design="4 C16", technique="TLA+ derived-graph operators; TLC validation of recorded derive lines on TLC-generated states")

CHECKS["C09"] = dict(
    text="For every reachable state of the bounded model (reciprocal pairs, self-loops, multi-run timelines) and seeded random "
         "graphs, write_snapshots is run over delimiters x encodings x targets (plain/.gz/.bz2 path, open binary file); the "
         "bytes are tokenised strictly by the harness and TLC judges (spec/Derived.tla): one row per interaction and instant, "
         "orientation kept; read_snapshots with matching parameters yields the same presence relation, the right class and a "
         "well-formed graph (C02-C05 on it). Four-column rows are judged by the parser lines of C18.",
    design="4 C09", technique="TLA+ derived-graph operators; TLC validation of recorded write/read lines on TLC-generated states")
CHECKS["C10"] = dict(
    text="Same scheme for write_interactions / read_interactions: rows = observed stream in order, presence and stream of the "
         "graph read back equal the source's (known finding KF1 inherited through the log). Generated well-formed event logs "
         "are fed to the reader by the parser lines (spec/Parsers.tla).",
    design="4 C10", technique="TLA+ derived-graph operators; TLC validation of recorded write/read lines on TLC-generated states")
CHECKS["C11"] = dict(
    text="Same scheme for node_link_data -> json.dumps -> json.loads -> node_link_graph: dumps succeeds, directed flag, node list "
         "with attribute digests, one link per interaction and instant oriented, rebuilt class / nodes / attribute digests / graph "
         "attributes / presence; the directed argument decides only when the key is absent; custom attrs['id'].",
    design="4 C11", technique="TLA+ derived-graph operators; TLC validation of recorded write/read lines on TLC-generated states")

CHECKS["C18"] = dict(
    text="TLC enumerates every line sequence of length <= 3 over a pool of line shapes (valid 3/4-column rows, event rows, empty, "
         "whitespace-only, comment-only, short rows, trailing comments, extra columns, unconvertible fields), proves that the "
         "implementation-shaped parser model equals the reference reading and skips noise, and dumps the cases; each case is "
         "rendered to text and fed, with its clean rows, to the real parse_snapshots / parse_interactions; TLC judges the two "
         "recorded graphs (same result kind and raw observation, presence = reference fold, TypeError for unconvertible fields). "
         "keys=True goes through a real file and is judged against the rank-substituted rows; compact_timeslot is judged as a "
         "strictly increasing bijection on all 256 subsets of -3..4 and seeded large sets.",
    design="4 C18", technique="TLC-enumerated input domain replayed into the real parsers; TLC validation with the TLA+ reference reading")

_PATHS = ("spec/Paths.tla states C12 literally (ValidPath) and builds the brute-force set AllPaths as the closure of one-hop paths "
          "under extension. TLC proves, for every temporal graph of a bounded domain (3 nodes x 3-4 instants undirected, 3 nodes "
          "directed, 2 nodes with self-loops) and every (u, v, window), that an implementation-shaped model of temporal_dag + "
          "time_respecting_paths returns exactly AllPaths, then dumps the graphs; each is built on the real class and every "
          "query of the real algorithms is judged by TLC against the observed presence relation")
CHECKS["C12"] = dict(text=_PATHS + ": every returned path satisfies ValidPath, is a non-empty tuple keyed (first,last), no duplicates.",
                     design="4 C12/C13", technique="TLC-enumerated graph domain replayed into the real algorithms; TLC validation against the declarative TLA+ path set")
CHECKS["C13"] = dict(text=_PATHS + ": result = AllPaths (sample=1, u present at start), empty when u is absent at start, subset for sample<1, "
                     "all_time_respecting_paths = union over the nodes present at min_t.",
                     design="4 C12/C13", technique="TLC-enumerated graph domain replayed into the real algorithms; TLC validation against the declarative TLA+ path set")
CHECKS["C15"] = dict(text=_PATHS + ": DAG edges are interactions inside the window with non-decreasing occurrence times (equal only out of a "
                     "source), no cycle, sources = occurrences of u with a neighbour, targets are reached occurrences of v, all inside the "
                     "DAG; ValueError for invalid windows; empty DAG without snapshots.",
                     design="4 C15", technique="TLC-enumerated graph domain replayed into the real algorithms; TLC validation with TLA+ DAG clauses")
CHECKS["C14"] = dict(
    text="spec/Annotate.tla defines the five optimum sets declaratively; TLC proves the single-pass model (running minima with tie "
         "lists, then the two second-level minima) equal to them for every list of length <= 4 (5 thorough) over a pool of 8 paths "
         "with ties in every criterion, duplicates and every order, and dumps the lists; each is fed to the real annotate_paths / "
         "path_length / path_duration and judged by TLC.",
    design="4 C14", technique="TLC-enumerated input domain replayed into the real function; TLC validation against declarative TLA+ optimum sets")

CHECKS["C17"] = dict(
    text="spec/Stats.tla defines every statistic as an exact rational function of the presence relation (Latapy et al. stream-graph "
         "definitions; the formulas the property spells out are used literally) and the inter-event distributions as gap histograms "
         "of the restricted chronological stream with the mass / weighted-sum identities. TLC proves the [0,1] range and the "
         "identities over every reachable state of bounded models; every reachable self-loop-free state (3-node and 2-node models) "
         "and seeded random graphs are built on the real class, each statistic is called for every node / pair / instant and "
         "judged by TLC as an exact rational against the observed presence and stream.",
    design="4 C17", technique="TLA+ definitions as exact rationals; TLC invariants; TLC validation of recorded statistics on TLC-generated states")
CHECKS["C19"] = dict(
    text="spec/Guard.tla: the names the property lists must raise NetworkXNotImplemented and leave interactions, timelines, ids and "
         "stream untouched; every other public callable inherited from networkx (found by introspection, arguments synthesised from "
         "signatures, edge-creating and node-only usages of update) must leave the graph well formed (C03-C05 clauses relative to its "
         "own observed presence, no adjacency entry without a timeline); on a frozen copy is_frozen holds and every mutator raises "
         "and leaves the raw observation identical (the timed add family is known finding KF5). Exercised on every reachable state "
         "of the bounded model (TLC also proves C03-C05 for every model action) and seeded random graphs; judged by TLC.",
    design="4 C19", technique="TLA+ guard clauses; TLC invariants for model actions; TLC validation of recorded calls of the inherited API on TLC-generated states")

CHECKS["C20"] = dict(
    text="spec/Conformity.tla states the clauses the property fixes: None iff the window has no snapshot, key set = nodes present at "
         "start inside the window, scores in [-1,1], equality under renaming of label values and of node ids, score 1 / 0 in the "
         "one-label case according to reachability (declarative path set of spec/Paths.tla inside the slice), and "
         "sliding_delta_conformity = the pointwise calls stamped t+delta for exactly the ids with t+delta before the last id. The "
         "labelled graphs are the TLC-enumerated path domain with seeded label assignments plus seeded random graphs; TLC judges the "
         "logged scores (scaled by 10^6, tolerance 2). The numeric value in general is not recomputed. Undirected and "
         "directed graphs, label values of several types (falsy ones included), analyses repeated on the same object "
         "after it was changed.",
    design="4 C20", technique="TLC-enumerated graph domain replayed into the real functions; TLC validation of metamorphic and reachability clauses in TLA+")

NOT_YET = {}

TITLES = {}


def build():
    props = [json.loads(l) for l in open(os.path.join(VERIF, "properties.jsonl"))]
    checks = []
    na = []
    for p in props:
        pid = p["id"]
        if pid in CHECKS:
            c = CHECKS[pid]
            checks.append({
                "property_id": pid,
                "quick_cmd": "bin/check --property %s --tier quick" % pid,
                "thorough_cmd": "bin/check --property %s --tier thorough" % pid,
                "evidence_file": "/verif/evidence/%s.json" % pid,
                "replay_cmd_template": "bin/replay {path}",
                "engine": "tla-conformance",
                "level_claimed": {"category": "model_checking", "text": c["text"], "design_ref": c["design"]},
                "level_note": c.get("note", CORE_NOTE),
                "technique": c["technique"],
            })
        else:
            na.append({"property_id": pid,
                       "reason": NOT_YET.get(pid, "check not built yet in this round (planned with the same technique, DESIGN.md section 8); not claimed until it runs")})
    man = {
        "version": 1,
        "setup_cmd": "bin/setup",
        "hooks": {
            "guard": "DYNETX_VERIF",
            "enable": "no hook lives inside /repo: the library is sequential and its public API exposes the whole "
                      "abstract state; DYNETX_VERIF=1 only activates the pytest tracer plugin under /verif/harness "
                      "(checks import dynetx from /repo's working tree, or from DYNETX_ROOT)",
            "baseline_off_cmd": "cd /repo && /venv/bin/python -m pytest -ra -q -p no:cacheprovider --timeout=900 --continue-on-collection-errors dynetx/test",
            "source_commits": [],
            "add_only": True,
        },
        "engines": [
            {"name": "tla-conformance", "path": "/verif/spec + /verif/harness",
             "serves_properties": sorted(CHECKS),
             "kind_free_text": "explicit TLA+ specification (spec/*.tla) model-checked by TLC; conformance in both directions: "
                               "TLC-generated states/behaviours replayed into the real classes, traces recorded from the real "
                               "code validated by TLC (spec/Trace*.tla) with the same clause operators"},
        ],
        "checks": checks,
        "not_applicable": na,
        "notes": "Genuine defects found so far are repaired by 'fix:' commits in /repo or listed in /verif/known_findings.json; see DESIGN.md.",
    }
    if not na:
        del man["not_applicable"]
    return man


if __name__ == "__main__":
    with open(os.path.join(VERIF, "MANIFEST.json"), "w") as f:
        json.dump(build(), f, indent=1)
    print("MANIFEST.json written")
