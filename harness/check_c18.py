"""C18 (readers skip noise; timestamp compaction), with the parser-level parts
of C09 (four-column rows) and C10 (reading of well-formed event logs).

TLC enumerates every line sequence up to a length bound over a pool of line
shapes (spec/MCParsers.tla), proves the model parser against the reference
reading, and dumps the cases; the harness renders each case to text (delimiter,
padding and comment variants), feeds it -- and its clean rows -- to the real
parse_snapshots / parse_interactions and lets TLC judge the recorded graphs."""
import itertools
import os
import random
import tempfile

from . import core, tlaval, tlc
from .runner import Check, OUT

dn = core.dn


def _tok(t, rng=None, alt=False):
    """text of a token; with alt, an integer field may be spelled with a leading zero or an explicit plus sign
    (the same value for nodetype / timestamptype = int: the reading may not depend on the spelling)"""
    if alt and t[0] == "i" and rng is not None:
        v = int(t[1])
        return rng.choice([str(v), ("0%d" % v) if v >= 0 else ("-0%d" % -v), ("+%d" % v) if v >= 0 else str(v)])
    return str(t[1])


MARKERS = ["#", "#", "%", "//", "--"]      # "--": a marker made of the character of the '-' rows (never "- -")


# converters: whatever way a converter rejects a field, the readers raise TypeError
def _conv_decimal(s):
    from decimal import Decimal
    return int(Decimal(s))       # decimal.InvalidOperation (an ArithmeticError) on junk


def _conv_keyerr(s):
    t = s.strip()
    if not t.lstrip("+-").isdigit():
        raise KeyError(s)        # e.g. a lookup table without the name
    return int(t)


CONVS = {"int": int, "decimal": _conv_decimal, "keyerr": _conv_keyerr}


def render(line, delim, rng, marker="#", alt=False):
    d = " " if delim is None else delim
    txt = d.join(_tok(t, rng, alt) for t in line["toks"])
    if line["ws"]:
        txt = rng.choice(["  ", " ", "\t"]) + txt + rng.choice(["  ", " \t", " "])
    if line["com"]:
        txt = txt + rng.choice(["#", " #", "# note", " # 1 2 3", "#1" + d + "2" + d + "3" + d + "4"]).replace("#", marker)
    return txt + "\n"


def _parse(parser, lines, delim, directed, marker="#", conv="int"):
    fn = dn.readwrite.edgelist.parse_snapshots if parser == "snapshots" else dn.readwrite.edgelist.parse_interactions
    c = CONVS[conv]
    if marker == "#" :
        return fn(lines, directed=directed, delimiter=delim, nodetype=c, timestamptype=c)
    return fn(lines, comments=marker, directed=directed, delimiter=delim, nodetype=c, timestamptype=c)


def _grid(case):
    ts = [t[1] for ln in case for t in ln["toks"] if t[0] == "i"]
    return (min(ts + [0]) - 1, max(ts + [0]) + 2)


KNOWN = [1, 2]


def _obs(fn):
    try:
        return "ok", fn()
    except Exception as ex:
        return core.exc_name(ex), None


def job_parse(job):
    seed, parser, case, clean, delim, directed = job
    rng = random.Random(seed)
    L = core.labeling("int").prime(9)
    grid = _grid(case)
    empty = core.observe(core.new_graph(directed, True), L, KNOWN, grid)
    # event logs: the marker made of the '-' character is tried on a larger share of the cases
    marker = rng.choice(MARKERS + ["--", "--"]) if parser == "interactions" else rng.choice(MARKERS)
    alt = rng.random() < 0.3     # alternative spellings of the integer fields (03, +3)
    conv = rng.choice(["int", "int", "decimal", "keyerr"])
    # line terminators: every line ends with a newline / the last one does not (a file without final newline) / none does
    # (rows handed over without terminators, as generate_interactions yields them)
    nl = rng.choice(["all", "all", "last_missing", "none"])

    def term(lines):
        if nl == "none":
            return [x.rstrip("\n") for x in lines]
        if nl == "last_missing" and lines:
            return lines[:-1] + [lines[-1].rstrip("\n")]
        return lines
    res, G = _obs(lambda: _parse(parser, term([render(l, delim, rng, marker, alt) for l in case]), delim, directed, marker, conv))
    cres, C = _obs(lambda: _parse(parser, term([render(l, delim, rng, marker) for l in clean]), delim, directed, marker, conv))
    line = {"op": "parse", "parser": parser, "dir": bool(directed), "lines": case, "delim": repr(delim),
            "marker": marker, "alt": alt, "conv": conv, "nl": nl, "res": res, "cres": cres, "fork": False,
            "obs": core.observe(G, L, KNOWN, grid) if G is not None else empty,
            "cobs": core.observe(C, L, KNOWN, grid) if C is not None else empty,
            "hdir": bool(G.is_directed()) if G is not None else bool(directed)}
    out = [line]
    # keys=True on the clean rows of convertible cases (needs a real file)
    if clean and all(t[0] == "i" or t[1] in "+-" for l in clean for t in l["toks"]) and rng.random() < 0.5:
        tmpdir = os.path.join(OUT, "tmp")
        os.makedirs(tmpdir, exist_ok=True)
        fd, path = tempfile.mkstemp(suffix=".txt", dir=tmpdir)
        try:
            plain = [dict(l, com=False, ws=False) for l in clean]
            if parser == "snapshots":
                plain = [dict(l, toks=l["toks"][:4]) for l in plain]
            # the ranks do not change when every timestamp of the file is moved by the same amount: large timestamps
            # (beyond the small-integer range), several rows sharing one
            off = rng.choice([0, 1000, 10 ** 6, -1, -2, -4])      # negative: vanishing timestamps of exactly 0, negative starts
            tpos = (2, 3) if parser == "snapshots" else (3,)
            moved = [dict(l, toks=[[t[0], t[1] + off] if (i in tpos and t[0] == "i") else t for i, t in enumerate(l["toks"])])
                     for l in plain]
            with os.fdopen(fd, "w") as f:
                for k, l in enumerate(moved):
                    row = render(l, delim, rng, alt=alt)
                    f.write(row.rstrip("\n") if (nl == "last_missing" and k == len(moved) - 1) else row)
            reader = dn.read_snapshots if parser == "snapshots" else dn.read_interactions
            kres, K = _obs(lambda: reader(path, directed=directed, delimiter=delim, nodetype=int, timestamptype=int, keys=True))
        finally:
            os.remove(path)
        out.append({"op": "keys", "parser": parser, "dir": bool(directed), "lines": plain, "res": kres, "fork": False,
                    "obs": core.observe(K, L, KNOWN, grid) if K is not None else empty})
    return out


def job_compact(job):
    vals = job
    try:
        m = dn.compact_timeslot(list(vals))
        res = "ok"
        mp = [[k, v] for k, v in m.items()] if isinstance(m, dict) and all(
            isinstance(k, int) and isinstance(v, int) and not isinstance(v, bool) for k, v in m.items()) else None
        if mp is None:
            res, mp = "shape", []
    except Exception as ex:
        res, mp = core.exc_name(ex), []
    return [{"op": "compact", "vals": list(vals), "map": mp, "res": res, "fork": False}]


def _cases(chk, parser, maxlen):
    cfgsrc = os.path.join(tlc.SPEC, "MC_parsers_%s.cfg" % parser)
    dst = os.path.join(tlc.SPEC, "_gen_parsers_%s_%s_%d.cfg" % (parser, chk.prop, os.getpid()))
    with open(cfgsrc) as f:
        txt = f.read().replace("MaxLen = 3", "MaxLen = %d" % maxlen)
    with open(dst, "w") as f:
        f.write(txt)
    dump = os.path.join(OUT, "tmp", "parsers_%s_%d.dump" % (parser, os.getpid()))
    os.makedirs(os.path.dirname(dump), exist_ok=True)
    try:
        res = tlc.run_mc(dst, "MC_parsers.tla", workers=8, timeout=3000, dump=dump)
    finally:
        os.remove(dst)
    res["cfg"] = "MC_parsers_%s.cfg (MaxLen=%d)" % (parser, maxlen)
    chk.add_mc(res, "InvReading, InvNoise: the model parser equals the reference reading and skips noise")
    cases = []
    for st in tlaval.parse_dump(dump):
        cases.append([{"toks": [list(t) for t in ln["toks"]], "com": ln["com"], "ws": ln["ws"]} for ln in st["case"]])
    os.remove(dump)
    return cases


def _is_data(ln, parser):
    return len(ln["toks"]) >= 3 if parser == "snapshots" else len(ln["toks"]) == 4


def parse_jobs(chk, parsers, tier, rng, nquick=900, only=None):
    jobs = []
    for parser in parsers:
        cases = _cases(chk, parser, 3)
        if only:
            cases = [c for c in cases if only(c)]
        if tier == "quick":
            cases = rng.sample(cases, min(len(cases), nquick))
        for case in cases:
            # the clean rows are the spec's Clean(): data rows only, comments and padding removed
            clean = [dict(l, com=False, ws=False) for l in case if _is_data(l, parser)]
            delims = [None, ",", "\t"] if tier == "thorough" else [rng.choice([None, ",", "\t", ";"])]
            for d in delims:
                jobs.append((rng.randrange(1 << 30), parser, case, clean, d, rng.random() < 0.5))
    chk.run_jobs(job_parse, jobs, "parse", chunk=1200)
    return len(jobs)


def run(prop, tier, seed):
    chk = Check(prop, tier, seed)
    rng = random.Random(seed)
    parse_jobs(chk, ("snapshots", "interactions"), tier, rng)
    # compact_timeslot on every subset of -3..4 and on seeded large sets
    base = list(range(-3, 5))
    sets = [list(c) for k in range(0, 9) for c in itertools.combinations(base, k)]
    for _ in range(40 if tier == "quick" else 400):
        sets.append(rng.sample(range(-10 ** 6, 10 ** 6), rng.randint(5, 60)))
    for s in sets:
        rng.shuffle(s)
    chk.run_jobs(job_compact, sets, "compact", chunk=2000)
    chk.assumptions = [
        "TLC, the CommunityModules and the JSON bridge are correct",
        "the renderer (harness/check_c18.py: tokens joined by the delimiter, padding, comment tails) produces the text the abstract line "
        "describes; which lines are data rows is decided by the specification (IsData / Clean in spec/ParsersSpec.tla), mirrored by the "
        "field-count test of the renderer's caller",
        "nodetype = timestamptype = int, or a converter to int that rejects junk with another exception type (decimal.InvalidOperation, "
        "KeyError)",
    ]
    rule = ("every line sequence of length <= 3 over the pool of 17 (snapshots) / 16 (interactions) line shapes -- valid 3- and "
            "4-column rows, event rows, empty, whitespace-only, comment-only, short rows, trailing comments, extra columns, "
            "unconvertible node / timestamp fields -- is enumerated by TLC (well-formed logs only for the interaction parser), "
            "rendered with a delimiter in {whitespace, ',', tab, ';'} and fed to the real parser together with its clean rows; "
            "keys=True is exercised on the clean rows through a real file; compact_timeslot on all 256 subsets of -3..4 plus "
            "seeded large sets. Non-trivial = the sequence has at least one data row; distinct = distinct digests")
    return chk.finish(rule, exhaustive=(tier == "thorough"))
