"""C19: blocked networkx mutators, inherited API, frozen graphs.

Every public callable of DynGraph / DynDiGraph whose defining class is a
networkx class (found by introspection in the installed networkx), the
overridden blocked ones and the blocked module-level functions are called, with
arguments synthesised from their signatures, on a deep copy of every reachable
state of the bounded model; then every mutator on a frozen copy.  The
observations are judged by TLC (spec/Guard.tla)."""
import copy
import inspect
import random

import networkx as nx

from . import core, drivers, tlc
from .check_core import mc_states, LABS
from .runner import Check

dn = core.dn

MUTATORS = ["add_node", "add_nodes_from", "add_edge", "add_edges_from", "add_weighted_edges_from", "remove_edge",
            "remove_edges_from", "remove_node", "remove_nodes_from", "clear", "clear_edges", "update_edges", "update_nodes",
            "add_interaction", "add_interactions_from", "add_path", "add_star", "add_cycle", "dn_add_path", "dn_add_star",
            "dn_add_cycle", "update_node_attr", "update_node_attr_from", "dn_set_node_attributes"]
BLOCKED_EXTRA = ["add_edge", "add_edges_from", "remove_edge", "remove_edges_from", "remove_node", "remove_nodes_from",
                 "edges_iter", "in_edges", "out_edges", "in_edges_iter", "out_edges_iter"]


def inherited(cls):
    """public callables of the networkx API reachable on cls: those whose defining class is a networkx class,
    and those dynetx overrides under the same name (clear, clear_edges, to_undirected, ... -- an override is
    still 'a call through the inherited networkx API' for the caller)"""
    base = [k for k in cls.__mro__ if k.__module__.startswith("networkx")][0]
    out = []
    for name in dir(cls):
        if name.startswith("_") or not callable(getattr(cls, name)):
            continue
        owner = next(k for k in cls.__mro__ if name in k.__dict__)
        if owner.__module__.startswith("networkx") or (hasattr(base, name) and callable(getattr(base, name, None))):
            out.append(name)
    return out


def usages(g, name, a, b, c, t, early=None):
    """argument tuples to try for an entry point: a, b existing nodes (or new), c a node not in the graph"""
    if name == "update":
        return [("update_edges", lambda h: h.update(edges=[(a, c)])),
                ("update_edges", lambda h: h.update(edges=[(a, b)], nodes=[c])),
                ("update_edges", lambda h: h.update(edges=nx.Graph([(a, c)]))),
                ("update_nodes", lambda h: h.update(nodes=[c]))]
    if name in ("clear", "clear_edges"):
        # also: the emptied object is used again, at an instant before everything it held (nothing may survive the clear)
        def reuse(h):
            getattr(h, name)()
            h.add_interaction(a, b, early)
        return [(name, lambda h: getattr(h, name)()), (name + "_reuse", reuse)]
    if name == "add_weighted_edges_from":
        return [(name, lambda h: h.add_weighted_edges_from([(a, c, 1.5)])), (name, lambda h: h.add_weighted_edges_from([(a, b, 2)]))]
    if name in ("add_edge", "remove_edge", "has_edge", "get_edge_data", "number_of_edges"):
        return [(name, lambda h: getattr(h, name)(a, b)), (name, lambda h: getattr(h, name)(a, c))]
    if name in ("add_edges_from", "remove_edges_from", "edge_subgraph"):
        return [(name, lambda h: getattr(h, name)([(a, b)])), (name, lambda h: getattr(h, name)([(a, c), (c, a)]))]
    if name in ("add_node", "remove_node"):
        return [(name, lambda h: getattr(h, name)(a)), (name, lambda h: getattr(h, name)(c))]
    if name in ("add_nodes_from", "remove_nodes_from", "subgraph", "nbunch_iter"):
        return [(name, lambda h: getattr(h, name)([a, c]))]
    if name in ("edges_iter", "in_edges", "out_edges", "in_edges_iter", "out_edges_iter"):
        return [(name, lambda h: getattr(h, name)()), (name, lambda h: getattr(h, name)([a]))]
    if name == "add_interaction":
        return [(name, lambda h: h.add_interaction(a, c, t)), (name, lambda h: h.add_interaction(a, b, t, t + 2))]
    if name == "add_interactions_from":
        return [(name, lambda h: h.add_interactions_from([(a, c)], t))]
    if name in ("add_path", "add_star", "add_cycle"):
        return [(name, lambda h: getattr(h, name)([a, c], t) if hasattr(h, name) else getattr(dn, name)(h, [a, c], t))]
    if name in ("dn_add_path", "dn_add_star", "dn_add_cycle"):
        return [(name, lambda h: getattr(dn, name[3:])(h, [a, c], t))]
    if name == "update_node_attr":
        return [(name, lambda h: h.update_node_attr(a, lab=5)), (name, lambda h: h.update_node_attr(a, lab=0))]
    if name == "update_node_attr_from":
        return [(name, lambda h: h.update_node_attr_from([a], lab=5))]
    if name == "dn_set_node_attributes":
        return [(name, lambda h: dn.set_node_attributes(h, {a: 7}, name="lab")), (name, lambda h: dn.set_node_attributes(h, 3, name="lab")),
                (name, lambda h: dn.set_node_attributes(h, 0, name="lab")), (name, lambda h: dn.set_node_attributes(h, {a: {"lab": 0}}))]
    if name == "dn_set_edge_attributes":
        return [(name, lambda h: dn.set_edge_attributes(3, "w"))]
    if name == "dn_get_edge_attributes":
        return [(name, lambda h: dn.get_edge_attributes(h, "t"))]
    # generic: try by arity
    fn = getattr(g, name, None)
    try:
        params = [p for p in inspect.signature(fn).parameters.values()
                  if p.default is inspect.Parameter.empty and p.kind in (p.POSITIONAL_ONLY, p.POSITIONAL_OR_KEYWORD)]
    except (TypeError, ValueError):
        params = []
    n = len(params)
    return [(name, lambda h: getattr(h, name)(*([a, b, c][:n])))]


def _consume(r):
    """drain iterators / views so that lazy errors surface inside the call"""
    try:
        if hasattr(r, "__next__"):
            list(r)
        elif isinstance(r, (nx.classes.reportviews.NodeView,)):
            list(r)
    except TypeError:
        pass


def guard_lines(g, L, known, grid, rng, frozen):
    cls = type(g)
    directed = g.is_directed()
    present = [n for n in known if g.has_node(L.node(n))]
    a = L.node(present[0]) if present else L.node(known[0])
    b = L.node(present[-1]) if present else L.node(known[0])
    c = L.node(known[-1])   # job_guard appends one node id the history never used
    t = L.time(grid[1] - 2)
    names = sorted(set(inherited(cls)) | set(x for x in BLOCKED_EXTRA if hasattr(cls, x)) | {"dn_set_edge_attributes", "dn_get_edge_attributes"})
    if frozen:
        names = [m for m in MUTATORS if m.startswith("dn_") or m in ("update_edges", "update_nodes") or hasattr(g, m) or m in ("add_star", "add_cycle")]
    lines = []
    for name in names:
        base = "update" if name in ("update_edges", "update_nodes") else name
        for usage, fn in usages(g, base, a, b, c, t, L.time(grid[0] + 1)):
            if frozen and usage not in MUTATORS:
                continue
            if name in ("update_edges", "update_nodes") and usage != name:
                continue
            h = copy.deepcopy(g)
            try:
                _consume(fn(h))
                res = "ok"
            except Exception as ex:
                res = core.exc_name(ex)
            lines.append({"op": "guard", "fork": True, "name": usage, "res": res, "frozen": bool(frozen),
                          "isfrozen": bool(dn.is_frozen(h)), "mut": usage in MUTATORS,
                          "obs": core.observe(h, L, known, grid)})
    return lines


def job_guard(job):
    seed, directed, removal, calls, lab, known, grid = job
    rng = random.Random(seed)
    known = sorted(set(known) | {max(known) + 1})
    lines, g, L, known, grid = drivers.make_trace(directed, removal, calls, labeling=lab, rng=rng, known=known, grid=grid,
                                                  ret_obj=True)
    lines.append({"op": "observe", "fork": False, "res": "ok", "obs": core.observe(g, L, known, grid)})
    out = [lines + guard_lines(g, L, known, grid, rng, False)]
    f = copy.deepcopy(g)
    dn.freeze(f)
    fl = list(lines) + [{"op": "observe", "fork": False, "res": "ok", "obs": core.observe(f, L, known, grid)}]
    out.append(fl + guard_lines(f, L, known, grid, rng, True))
    return out


def run(prop, tier, seed):
    chk = Check(prop, tier, seed)
    rng = random.Random(seed)
    res = tlc.run_mc("MC_guard.cfg", "MC_guard.tla", workers=8, timeout=1800)
    chk.add_mc(res, "adds, add_node, clear, clear_edges, freeze and the blocked mutators interleaved: every reachable state well formed "
                    "(InvC01-C08, InvNodes), FrozenImmutable (a frozen graph changes only through the pinned add family, KF5)")
    jobs = []
    nst = 0
    capped = False
    for cfg in (["MC_core_tiny.cfg"] if tier == "quick" else ["MC_core_small.cfg", "MC_core_loops.cfg", "MC_core_3n.cfg"]):
        states, alphabet = mc_states(chk, cfg, ["InvRefines", "InvC03", "InvC04", "InvC05"])
        nmax = max([n for c in alphabet for n in drivers.call_nodes(c)] or [2])
        known = list(range(1, nmax + 1))
        grid = drivers.grid_of(alphabet)
        if tier == "quick":
            states = rng.sample(states, min(len(states), 50))
        elif len(states) > 1200:
            states = rng.sample(states, 1200)      # ~100 calls per state and copy: the full sets took > 2 h
            capped = True
        for i, st in enumerate(states):
            nst += 1
            jobs.append((rng.randrange(1 << 30), st["dir"], st["rem"], st["hist"], LABS[(i + seed) % len(LABS)], known, grid))
    for _ in range(10 if tier == "quick" else 300):
        calls = drivers.rand_history(rng, rng.choice([3, 4, 5]), rng.choice([4, 8]), rng.randint(3, 15))
        jobs.append((rng.randrange(1 << 30), rng.random() < 0.5, rng.random() < 0.8, calls, rng.choice(LABS),
                     drivers.known_of(calls), drivers.grid_of(calls)))
    chk.run_jobs(job_guard, jobs, "guard", chunk=40)
    chk.extra["bounded_states_replayed"] = nst
    chk.extra["inherited_callables"] = {"DynGraph": inherited(dn.DynGraph), "DynDiGraph": inherited(dn.DynDiGraph)}
    chk.assumptions = [
        "TLC, the CommunityModules and the JSON bridge are correct",
        "the set of inherited callables is found by introspection of the installed networkx (%s); arguments are synthesised from the "
        "signatures (existing / new nodes and edges, edge-creating and node-only usages of update)" % nx.__version__,
        "a callable the specification does not name is judged by the generic well-formedness clause only",
    ]
    rule = ("each case is one (graph state, entry point, argument shape) applied to a deep copy of the state: every public callable "
            "inherited from networkx, every blocked name and the blocked module-level functions on the live graph, every mutator "
            "(networkx ones, add_interaction and bulk helpers, node-attribute setters) on a frozen copy; states are all reachable "
            "states of the bounded model (50 sampled in the quick tier, at most 1,200 per configuration in the thorough tier) plus seeded random graphs; non-trivial = the state has at "
            "least one interaction; distinct = distinct digests of (observation, call)")
    return chk.finish(rule, exhaustive=(tier == "thorough" and not capped))
