"""bin/selftest [--only <id>...] [--tier quick]: sensitivity of the checks.

For every change under /verif/seeded/<id>/ (patch.diff + meta.json) and
/verif/mutants/<id>/ a scratch copy of /repo's working tree is made under
/var/tmp, the patch is applied, the repository's tests are run on the copy
(they must still pass) and the checks named in meta.json are run against the
copy (DYNETX_ROOT).  A change tagged "neutral" must be reported by no check.
Writes /verif/seeded/README.md."""
import argparse
import json
import os
import shutil
import subprocess
import sys
import time

VERIF = os.path.dirname(os.path.dirname(os.path.abspath(__file__)))


def sh(cmd, **kw):
    return subprocess.run(cmd, shell=True, stdout=subprocess.PIPE, stderr=subprocess.STDOUT, text=True, **kw)


def main():
    ap = argparse.ArgumentParser()
    ap.add_argument("--only", nargs="*")
    ap.add_argument("--tier", default="quick")
    ap.add_argument("--all-checks", action="store_true", help="run every check against every change")
    ap.add_argument("--checks", nargs="*", help="run only these checks (instead of the ones named in meta.json); implies --no-cache")
    ap.add_argument("--no-cache", action="store_true", help="do not update seeded/results.json / README.md (robustness runs under other seeds)")
    a = ap.parse_args()
    if a.checks:
        a.no_cache = True
    rows = []
    dirs = []
    for base in ("seeded", "mutants"):
        b = os.path.join(VERIF, base)
        if os.path.isdir(b):
            for d in sorted(os.listdir(b)):
                if os.path.exists(os.path.join(b, d, "patch.diff")):
                    dirs.append(os.path.join(b, d))
    props = [json.loads(l)["id"] for l in open(os.path.join(VERIF, "properties.jsonl"))]
    for d in dirs:
        name = os.path.basename(d)
        if a.only and name not in a.only:
            continue
        meta = json.load(open(os.path.join(d, "meta.json")))
        scratch = "/var/tmp/selftest-%s-%d" % (name, os.getpid())
        shutil.rmtree(scratch, ignore_errors=True)
        os.makedirs(scratch)
        try:
            sh("cd /repo && git ls-files -z | xargs -0 cp --parents -t %s" % scratch)
            r = sh("cd %s && git init -q . && git apply --whitespace=nowarn %s" % (scratch, os.path.join(d, "patch.diff")))
            if r.returncode != 0:
                rows.append((name, meta, "patch does not apply", {}, 0))
                continue
            t = sh("cd %s && /venv/bin/python -m pytest -q -p no:cacheprovider dynetx/test 2>&1 | tail -1" % scratch)
            tests = t.stdout.strip()
            demo = ""
            for f in os.listdir(d):
                if f.startswith("demo") and f.endswith(".py"):
                    x = sh("cd %s && cp %s . && /venv/bin/python %s" % (scratch, os.path.join(d, f), f))
                    demo = "demo exit %d" % x.returncode
            targets = a.checks if a.checks else (props if a.all_checks else meta.get("checks", [meta["property"]]))
            res = {}
            t0 = time.time()
            for p in targets:
                env = dict(os.environ, DYNETX_ROOT=scratch, VERIF_OUT=os.path.join(VERIF, "out", "selftest-" + name))
                c = subprocess.run([os.path.join(VERIF, "bin", "check"), "--property", p, "--tier", a.tier, "--no-evidence"],
                                   stdout=subprocess.PIPE, stderr=subprocess.STDOUT, text=True, env=env, cwd=VERIF)
                clauses = sorted({ln.split("clause=")[1].strip() for ln in c.stdout.splitlines() if ln.startswith("VIOLATION") and "clause=" in ln})
                res[p] = {"exit": c.returncode, "clauses": clauses}
                if c.returncode not in (0, 1):
                    res[p]["tail"] = c.stdout[-1500:]
                    print("MACHINERY", name, p, c.stdout[-1500:])
            shutil.rmtree(os.path.join(VERIF, "out", "selftest-" + name), ignore_errors=True)
            rows.append((name, meta, tests + ("; " + demo if demo else ""), res, time.time() - t0))
        finally:
            shutil.rmtree(scratch, ignore_errors=True)
    # merge with the results of earlier invocations (a change is re-run only when asked for)
    cache_path = os.path.join(VERIF, "seeded", "results.json")
    cache = {}
    if a.no_cache:
        ok = True
        for name, meta, tests, res, wall in rows:
            caught = [p for p, r in res.items() if r["exit"] == 1]
            good = (not caught) if meta.get("neutral") else (meta["property"][:3] in caught or bool(caught))
            ok = ok and good
            print(name, "OK" if good else "NOT-OK", "; ".join("%s -> %d" % (p, r["exit"]) for p, r in res.items()))
        sys.exit(0 if ok else 1)
    # several invocations may run side by side (disjoint --only sets): the cache is updated under a lock
    import fcntl
    lock = open(cache_path + ".lock", "w")
    fcntl.flock(lock, fcntl.LOCK_EX)
    if os.path.exists(cache_path):
        cache = json.load(open(cache_path))
    for name, meta, tests, res, wall in rows:
        cache[name] = {"meta": meta, "tests": tests, "res": res, "tier": a.tier}
    with open(cache_path, "w") as f:
        json.dump(cache, f, indent=1, sort_keys=True)
    run_now = {r[0] for r in rows}
    rows = [(n, c["meta"], c["tests"], c["res"], 0) for n, c in sorted(cache.items())]
    ok = True
    out = ["# Seeded changes and mutants: which checks catch which change", "",
           "Generated by `bin/selftest` (tier %s). A change is applied to a scratch copy of /repo's working tree; the repository's "
           "tests must still pass on it; the listed checks are run against the copy." % a.tier, "",
           "| change | breaks | needs | repo tests | check -> exit (failing clauses) | verdict |", "|---|---|---|---|---|---|"]
    for name, meta, tests, res, wall in rows:
        neutral = meta.get("neutral", False)
        caught = [p for p, r in res.items() if r["exit"] == 1]
        broken = [p for p, r in res.items() if r["exit"] not in (0, 1)]
        if neutral:
            verdict = "OK (neutral, not reported)" if not caught and not broken else "FALSE ALARM"
        else:
            verdict = "CAUGHT" if meta["property"] in caught or (caught and not a.all_checks) else ("MACHINERY" if broken else "MISSED")
        if verdict in ("MISSED", "FALSE ALARM", "MACHINERY") and name in run_now:
            ok = False
        cell = "; ".join("%s -> %d (%s)" % (p, r["exit"], ", ".join(r["clauses"][:4])) for p, r in res.items())
        out.append("| %s | %s | %s | %s | %s | %s |" % (name, meta["property"], meta.get("needs", "").replace("|", "/"), tests, cell, verdict))
        if name in run_now:
            print(name, verdict, cell)
    with open(os.path.join(VERIF, "seeded", "README.md"), "w") as f:
        f.write("\n".join(out) + "\n")
    sys.exit(0 if ok else 1)


if __name__ == "__main__":
    main()
