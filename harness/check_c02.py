"""C02: every snapshot / flattened query projects the one presence relation.

Model level: spec/MCQueries.tla (implementation-shaped observers against the
clauses of spec/Queries.tla) over every reachable state of the bounded model.
Code level: every reachable abstract state of the bounded model (self-loops,
reciprocal pairs, both modes) is rebuilt on the real class, isolated nodes
with attributes are added, and the full query battery (harness/battery.py) is
recorded and judged by TLC with the same clauses; plus random graphs.
"""
import random

from . import battery, core, drivers, tlc
from .check_core import mc_states, LABS
from .runner import Check


def job_battery(job):
    seed, directed, removal, calls, lab, known, grid = job
    rng = random.Random(seed)
    extra = []
    for _ in range(rng.choice([0, 1, 2])):
        extra.append({"op": "add_node", "n": rng.choice(known + [max(known) + 2]), "a": rng.randint(0, 2)})
    known2 = sorted(set(known) | {c["n"] for c in extra})
    allcalls = list(calls) + extra
    # a seeded share of the jobs queries the same object twice: after a prefix of its history and at the end
    # (an answer may never depend on what an earlier query saw)
    k = rng.randint(1, len(allcalls) - 1) if len(allcalls) >= 2 and rng.random() < 0.4 else len(allcalls)
    lines, g, L, known2, grid = drivers.make_trace(directed, removal, allcalls[:k], labeling=lab, rng=rng,
                                                   known=known2, grid=grid, ret_obj=True)
    if k < len(allcalls):
        lines.append({"op": "battery", "fork": False, "res": "ok", "obs": core.observe(g, L, known2, grid),
                      "q": battery.queries(g, L, known2, grid, rng=rng, nb_limit=4)})
        drivers.extend_trace(lines, g, L, allcalls[k:], known2, grid, rng)
    # node attribute setters: every form, on nodes of the graph (the reference follows them)
    for _ in range(rng.choice([0, 1, 2, 3])):
        present = [n for n in known2 if g.has_node(L.node(n))]
        if not present:
            break
        how = rng.choice(["update_node_attr", "update_node_attr_from", "set_dict", "set_const", "clear_attr"])
        a = rng.randint(1, 4)
        if how == "update_node_attr":
            ns = [rng.choice(present)]
            fn = lambda: g.update_node_attr(L.node(ns[0]), lab=a)
        elif how == "update_node_attr_from":
            ns = rng.sample(present, rng.randint(1, len(present)))
            fn = lambda: g.update_node_attr_from([L.node(n) for n in ns], lab=a)
        elif how == "set_dict":
            ns = rng.sample(present, rng.randint(1, len(present)))
            fn = lambda: core.dn.set_node_attributes(g, {L.node(n): a for n in ns + [max(known2) + 3]}, name="lab")
            L.node(max(known2) + 3)
        elif how == "set_const":
            ns = list(present)
            fn = lambda: core.dn.set_node_attributes(g, a, name="lab")
        else:
            ns = [rng.choice(present)]
            a = 0
            fn = lambda: g.update_node_attr(L.node(ns[0]))
        try:
            fn()
            res = "ok"
        except Exception as ex:
            res = core.exc_name(ex)
        lines.append({"op": "set_attr", "how": how, "ns": ns, "a": a, "fork": False, "res": res,
                      "obs": core.observe(g, L, known2, grid)})
    q = battery.queries(g, L, known2, grid, rng=rng)
    lines.append({"op": "battery", "fork": False, "res": "ok", "obs": core.observe(g, L, known2, grid), "q": q})
    return lines


def run(prop, tier, seed):
    chk = Check(prop, tier, seed)
    rng = random.Random(seed)
    res = tlc.run_mc("MC_queries_small.cfg", "MC_queries.tla", workers=8, timeout=1800)
    chk.add_mc(res, "InvC02: model observers satisfy the C02 clauses in every reachable state")
    jobs = []
    nst = 0
    for cfg in (["MC_core_loops.cfg", "MC_core_tiny.cfg"] if tier == "quick" else ["MC_core_loops.cfg", "MC_core_small.cfg", "MC_core_3n.cfg"]):
        states, alphabet = mc_states(chk, cfg, ["InvRefines"])
        nmax = max([n for c in alphabet for n in drivers.call_nodes(c)] or [2])
        known = list(range(1, nmax + 1))
        grid = drivers.grid_of(alphabet)
        if tier == "quick":
            states = rng.sample(states, min(len(states), 100))
        for i, st in enumerate(states):
            nst += 1
            jobs.append((rng.randrange(1 << 30), st["dir"], st["rem"], st["hist"], LABS[(i + seed) % len(LABS)], known, grid))
    nrand = 60 if tier == "quick" else 1500
    for i in range(nrand):
        nn = rng.choice([2, 3, 4, 5])
        tmax = rng.choice([3, 5, 8])
        calls = drivers.rand_history(rng, nn, tmax, rng.randint(2, 14))
        known = drivers.known_of(calls)
        grid = drivers.grid_of(calls)
        jobs.append((rng.randrange(1 << 30), rng.random() < 0.5, rng.random() < 0.8, calls, rng.choice(LABS), known, grid))
    chk.run_jobs(job_battery, jobs, "bat", chunk=320)
    chk.extra["bounded_states_replayed"] = nst
    chk.assumptions = [
        "TLC, the CommunityModules and the JSON bridge are correct",
        "the battery (harness/battery.py) records what the public API returned; the reference of every clause is the "
        "has_interaction table observed in the same state (the property is stated relative to has_interaction) and, "
        "for the flattened node set and attributes, the reference state computed from the logged calls",
        "iteration order of the adjacency dictionaries is modelled as ascending node order in MCQueries",
    ]
    rule = ("each case is one graph state (rebuilt from a TLC witness history or a seeded random history, plus 0-2 "
            "isolated nodes with attributes) on which every query entry point is called for every instant of the "
            "observation grid and with t omitted, over nbunch in {omitted, each node, two 2-subsets, a subset with an "
            "unknown node, an unknown node alone}; non-trivial = the graph has at least one interaction; distinct = "
            "distinct digests of (observation, call)")
    return chk.finish(rule, exhaustive=(tier == "thorough"))
