"""Binding between abstract calls/observations (what the TLA+ specification
talks about) and the real dynetx objects.

Nothing in this module knows what the right answer is: it applies abstract
calls to real graphs under a *labeling* (concrete node ids / shifted instants)
and projects what the public API returns back onto abstract integers.
Values of an unexpected shape are reported in the observation's ``err`` list
(the clauses reject observations with errors); they are never judged here.
"""
import hashlib
import numbers
import os
import sys
from fractions import Fraction

ROOT = os.environ.get("DYNETX_ROOT", "/repo")
if ROOT not in sys.path:
    sys.path.insert(0, ROOT)
os.environ.setdefault("TQDM_DISABLE", "1")

import dynetx as dn  # noqa: E402
import networkx as nx  # noqa: E402

assert os.path.realpath(dn.__file__).startswith(os.path.realpath(ROOT)), (dn.__file__, ROOT)

NoEnd = -99999
NoT = -99998


# --------------------------------------------------------------------------- labelings
class Labeling:
    """Concrete names for abstract nodes 1..N and a shift of the instants."""

    def __init__(self, name, node_fn, shift=0, swap_undirected=False, time_fn=int):
        self.name = name
        self.node_fn = node_fn
        self.shift = shift
        self.time_fn = time_fn      # concrete type of an instant (int, or a numpy integer type)
        self.swap = swap_undirected  # give undirected endpoints in the other order
        self._back = {}

    def node(self, i):
        c = self.node_fn(i)
        self._back[c] = i
        return c

    def time(self, t):
        return self.time_fn(t + self.shift)

    def anode(self, c):
        """abstract node of a concrete one (KeyError when unknown)"""
        return self._back[c]

    def atime(self, ct):
        if isinstance(ct, bool) or not isinstance(ct, numbers.Integral):
            raise KeyError(ct)
        return int(ct) - self.shift

    def prime(self, n):
        for i in range(1, n + 1):
            self.node(i)
        return self


class _Odd:
    """hashable, mutually non-comparable node ids"""
    __slots__ = ("k",)

    def __init__(self, k):
        self.k = k

    def __hash__(self):
        return hash(("odd", self.k))

    def __eq__(self, o):
        return isinstance(o, _Odd) and o.k == self.k

    def __repr__(self):
        return "Odd(%d)" % self.k


_MIXED = [7, "seven", (7, "x"), _Odd(4), frozenset({1, 2}), 3.5, b"n", -2]


def _mixed(i):
    if i <= len(_MIXED):
        return _MIXED[i - 1]
    return ("extra", i)


LABELINGS = {
    "int": lambda: Labeling("int", lambda i: i),
    # 0-based ids: the falsy node id 0 (and instant 0) must be treated like any other
    "zero": lambda: Labeling("zero", lambda i: i - 1),
    "int_rev": lambda: Labeling("int_rev", lambda i: 100 - i, shift=0, swap_undirected=True),
    "neg": lambda: Labeling("neg", lambda i: -i * 3, shift=-7),
    # instants around 0: abstract 0..k become -2..k-2 (intervals that end or start exactly at 0, negative starts)
    "cross0": lambda: Labeling("cross0", lambda i: i - 2, shift=-2),
    "big": lambda: Labeling("big", lambda i: 10 ** 9 + i, shift=10 ** 6),
    "str": lambda: Labeling("str", lambda i: "n%s" % chr(96 + i) if i < 27 else "m%d" % i, shift=3),
    "tuple": lambda: Labeling("tuple", lambda i: (i, "x"), shift=-2),
    # digit strings: the same text in a file as the integer ids, another node type
    "dstr": lambda: Labeling("dstr", lambda i: str(i), shift=1),
    # float node ids (a file token "1.0"; instants numerically equal to node ids)
    "flt": lambda: Labeling("flt", lambda i: float(i), shift=0),
    # non-ASCII string ids (encodable in latin-1 / cp1252 as well as utf-8)
    "uni": lambda: Labeling("uni", lambda i: ["zo\u00e9", "j\u00fcrgen", "\u00f1u", "\u00e5sa", "caf\u00e9-%d" % i][min(i, 5) - 1] if i < 5 else "caf\u00e9-%d" % i, shift=2),
    "mixed": lambda: Labeling("mixed", _mixed, shift=5, swap_undirected=True),
    # numpy integers as instants (and as node ids): any integral type is an integer timestamp
    "npt": lambda: Labeling("npt", lambda i: __import__("numpy").int64(i + 10), shift=4, time_fn=__import__("numpy").int64),
    # string ids containing (and ending with) the character the temporal DAG uses to join node and instant
    "under": lambda: Labeling("under", lambda i: ["n_%d", "a_b_%d_", "_%d", "x__%d"][i % 4] % i, shift=1),
}


def labeling(name):
    return LABELINGS[name]()


# --------------------------------------------------------------------------- construction / calls
def new_graph(directed, removal):
    cls = dn.DynDiGraph if directed else dn.DynGraph
    return cls(edge_removal=removal)


def exc_name(ex):
    return type(ex).__name__


def apply_call(g, L, c, form="method"):
    """Apply the abstract call record c to the real graph g; return result kind."""
    op = c["op"]
    try:
        if op == "add_interaction":
            u, v = L.node(c["u"]), L.node(c["v"])
            if L.swap and not g.is_directed():
                u, v = v, u
            kw = {}
            if c["t"] != NoT:
                kw["t"] = L.time(c["t"])
            if c["e"] != NoEnd:
                kw["e"] = L.time(c["e"])
            if form == "positional" and "t" in kw:
                args = [kw.pop("t")]
                if "e" in kw:
                    args.append(kw.pop("e"))
                g.add_interaction(u, v, *args)
            else:
                g.add_interaction(u, v, **kw)
        elif op == "add_interactions_from":
            ps = [(L.node(p[0]), L.node(p[1])) for p in c["ps"]]
            if L.swap and not g.is_directed():
                ps = [(b, a) for a, b in ps]
            if form == "iterator":
                ps = iter(ps)
            t = None if c["t"] == NoT else L.time(c["t"])
            e = None if c["e"] == NoEnd else L.time(c["e"])
            g.add_interactions_from(ps, t=t, e=e)
        elif op in ("add_path", "add_star", "add_cycle"):
            ns = [L.node(n) for n in c["ns"]]
            if form.endswith("_iter"):      # the node sequence as a one-shot iterator
                ns = iter(ns)
                form = form[:-5]
            t = None if c["t"] == NoT else L.time(c["t"])
            if form == "function" or (op != "add_path" and g.is_directed()):
                # DynDiGraph has no add_star / add_cycle method of its own: the
                # inherited entry points are the module level functions
                getattr(dn, op)(g, ns, t)
            else:
                getattr(g, op)(ns, t)
        elif op == "touch":
            touch(g, c["kind"])
        elif op == "clear":
            g.clear()
        elif op == "clear_edges":
            g.clear_edges()
        elif op == "add_node":
            if c.get("a", 0):
                g.add_node(L.node(c["n"]), lab=c["a"])
            else:
                g.add_node(L.node(c["n"]))
        else:
            raise AssertionError("unknown op %r" % op)
        return "ok"
    except (KeyboardInterrupt, SystemExit, AssertionError):
        raise
    except BaseException as ex:  # noqa: B902 - the error path is part of the observation
        return exc_name(ex)


def touch(g, kind):
    """a read-only operation of the library on the live object; the result (or the exception) is thrown away"""
    import io
    try:
        ids = list(g.temporal_snapshots_ids())
        nodes = list(g.nodes())
        if kind == "convert":
            g.to_undirected() if g.is_directed() else g.to_directed()
        elif kind == "convert_recip":
            g.to_undirected(reciprocal=True) if g.is_directed() else g.to_directed()
        elif kind == "slice" and ids:
            g.time_slice(ids[0], ids[-1])
            g.time_slice(ids[len(ids) // 2])
        elif kind == "write":
            dn.write_snapshots(g, io.BytesIO())
            dn.write_interactions(g, io.BytesIO())
        elif kind == "json":
            from dynetx.readwrite import json_graph
            json_graph.node_link_data(g)
        elif kind == "queries":
            for t in [None] + ids[:3]:
                g.degree(t=t), g.nodes(t=t), g.interactions(t=t), g.size(t=t), g.number_of_nodes(t=t)
            g.inter_event_time_distribution()
            g.interactions_per_snapshots()
            g.temporal_snapshots_ids(), g.avg_number_of_nodes(), list(g.stream_interactions())
            for n in nodes[:3]:
                g.get_node_snapshots(n), g.neighbors(n), g.inter_event_time_distribution(n)
        elif kind == "stats" and not g.is_directed():
            for fn in (g.coverage, g.uniformity, g.density, g.avg_number_of_nodes):
                try:
                    fn()
                except Exception:
                    pass
            for n in nodes[:3]:
                g.node_presence(n), g.node_contribution(n), g.node_density(n)
        elif kind == "paths" and len(nodes) <= 4 and len(ids) <= 5:
            import dynetx.algorithms as al
            for n in nodes[:2]:
                al.time_respecting_paths(g, n)
                al.temporal_dag(g, n)
    except (KeyboardInterrupt, SystemExit):
        raise
    except BaseException:  # noqa: B902 - only the state left behind matters
        pass


# --------------------------------------------------------------------------- projection
# Container kinds are not compared (DESIGN.md 1.1): any sequence is read as a sequence, any mapping as a
# mapping, any integral / boolean scalar type (numpy included) as int / bool.
import numbers  # noqa: E402
from collections.abc import Mapping  # noqa: E402


def as_bool(x):
    """True / False for bool-like scalars, None otherwise"""
    if isinstance(x, bool) or (type(x).__module__ == "numpy" and type(x).__name__ in ("bool", "bool_")):
        return bool(x)
    return None


def as_int(x):
    """int for integral scalars that are not booleans, None otherwise"""
    if as_bool(x) is not None:
        return None
    if isinstance(x, numbers.Integral):
        return int(x)
    return None


def _rat(x, err, tag):
    if as_bool(x) is not None:
        err.append(tag + "bool")
        return None
    if as_int(x) is not None:
        return [as_int(x), 1]
    if isinstance(x, numbers.Real) and not isinstance(x, Fraction):
        x = float(x)
        if x != x or x in (float("inf"), float("-inf")):
            err.append(tag + "nonfinite")
            return None
        f = Fraction(x).limit_denominator(10 ** 4)
        return [f.numerator, f.denominator]
    if isinstance(x, Fraction):
        return [x.numerator, x.denominator]
    err.append(tag + "type:" + type(x).__name__)
    return None


def _iv(L, tl, err, tag):
    """timeline -> [[a,b],...] in abstract instants"""
    out = []
    if not isinstance(tl, (list, tuple)):
        err.append(tag + "not-list")
        return out
    for it in tl:
        if not (isinstance(it, (list, tuple)) and len(it) == 2):
            err.append(tag + "interval-shape")
            continue
        try:
            out.append([L.atime(it[0]), L.atime(it[1])])
        except KeyError:
            err.append(tag + "interval-type")
    return out


def _tl_entries(L, items, err, tag):
    out = []
    try:
        for it in items:
            if not (isinstance(it, (tuple, list)) and len(it) == 3 and isinstance(it[2], Mapping) and 't' in it[2]):
                err.append(tag + "entry-shape")
                continue
            try:
                u, v = L.anode(it[0]), L.anode(it[1])
            except (KeyError, TypeError):
                err.append(tag + "unknown-node")
                continue
            out.append({"u": u, "v": v, "iv": _iv(L, it[2]['t'], err, tag)})
    except Exception as ex:  # the iteration itself raised
        err.append(tag + "exc:" + exc_name(ex))
    return out


def _stream(L, it, err, tag):
    out = []
    try:
        for x in it:
            if not (isinstance(x, (tuple, list)) and len(x) == 4 and x[2] in ("+", "-")):
                err.append(tag + "event-shape")
                continue
            try:
                out.append([L.anode(x[0]), L.anode(x[1]), x[2], L.atime(x[3])])
            except (KeyError, TypeError):
                err.append(tag + "unknown-value")
    except Exception as ex:
        err.append(tag + "exc:" + exc_name(ex))
    return out


def observe(g, L, known, grid, light=False):
    """Project the public API of g onto abstract values (see spec/Clauses.tla)."""
    err = []
    lo, hi = grid
    times = list(range(lo, hi + 1))
    directed = bool(g.is_directed())
    o = {"grid": [lo, hi]}
    rawparts = []

    # nodes
    nodes = []
    try:
        cn = list(g.nodes())
        rawparts.append(repr(list(g.nodes(data=True))))
        for c in cn:
            try:
                nodes.append(L.anode(c))
            except (KeyError, TypeError):
                err.append("nodes:unknown-node")
    except Exception as ex:
        err.append("nodes:exc:" + exc_name(ex))
    o["nodes"] = nodes
    attrs = []
    try:
        for c, d in g.nodes(data=True):
            a = d.get("lab", 0) if isinstance(d, dict) else -1
            try:
                attrs.append([L.anode(c), a if isinstance(a, int) and not isinstance(a, bool) else -1])
            except (KeyError, TypeError):
                pass
    except Exception as ex:
        err.append("attrs:exc:" + exc_name(ex))
    o["attrs"] = attrs

    # timelines
    try:
        items = g.interactions()
        rawparts.append(repr(items))
    except Exception as ex:
        items = []
        err.append("tl:exc:" + exc_name(ex))
    o["tl"] = _tl_entries(L, items, err, "tl:")
    nb = []
    for n in known:
        cn_ = L.node(n)
        try:
            present = g.has_node(cn_)
        except Exception:
            present = False
        if present:
            try:
                nb.extend(_tl_entries(L, g.interactions([cn_]), err, "tlnb:"))
            except Exception as ex:
                err.append("tlnb:exc:" + exc_name(ex))
    if directed:
        for meth in ("in_interactions", "out_interactions"):
            try:
                its = getattr(g, meth)()
                rawparts.append(repr(its))
                nb.extend(_tl_entries(L, its, err, "tlnb:"))
            except Exception as ex:
                err.append("tlnb:exc:" + exc_name(ex))
    o["tlnb"] = nb

    # presence table
    has, flat = [], []
    for u in known:
        cu = L.node(u)
        for v in known:
            cv = L.node(v)
            ts = []
            for t in times:
                try:
                    r = g.has_interaction(cu, cv, L.time(t))
                except Exception as ex:
                    err.append("has:exc:" + exc_name(ex))
                    break
                if as_bool(r) is True:
                    ts.append(t)
                elif as_bool(r) is None:
                    err.append("has:not-bool")
            has.append({"u": u, "v": v, "ts": ts})
            try:
                r = g.has_interaction(cu, cv)
                if as_bool(r) is True:
                    flat.append([u, v])
                elif as_bool(r) is None:
                    err.append("flat:not-bool")
            except Exception as ex:
                err.append("flat:exc:" + exc_name(ex))
    o["has"] = has
    o["flat"] = flat

    # snapshot index
    ids = []
    try:
        cids = g.temporal_snapshots_ids()
        rawparts.append(repr(cids))
        cids = list(cids)
        for c in cids:
            try:
                ids.append(L.atime(c))
            except KeyError:
                err.append("ids:type")
    except Exception as ex:
        err.append("ids:exc:" + exc_name(ex))
    o["ids"] = ids
    cnt = []
    try:
        d = g.interactions_per_snapshots()
        rawparts.append(repr(list(d.items())) if isinstance(d, dict) else repr(d))
        if not isinstance(d, Mapping):
            err.append("cnt:not-dict")
        else:
            for k, val in d.items():
                r = _rat(val, err, "cnt:")
                try:
                    if r is not None:
                        cnt.append([L.atime(k)] + r)
                except KeyError:
                    err.append("cnt:key-type")
    except Exception as ex:
        err.append("cnt:exc:" + exc_name(ex))
    o["cnt"] = cnt
    # functional forms of the snapshot index queries
    ids2, cnt2 = [], []
    try:
        for c in list(dn.temporal_snapshots_ids(g)):
            try:
                ids2.append(L.atime(c))
            except KeyError:
                err.append("ids:type")
    except Exception as ex:
        err.append("ids:exc:" + exc_name(ex))
    try:
        d2 = dn.interactions_per_snapshots(g)
        if isinstance(d2, Mapping):
            for k, val in d2.items():
                r = _rat(val, err, "cnt:")
                try:
                    if r is not None:
                        cnt2.append([L.atime(k)] + r)
                except KeyError:
                    err.append("cnt:key-type")
        else:
            err.append("cnt:not-dict")
    except Exception as ex:
        err.append("cnt:exc:" + exc_name(ex))
    o["ids2"] = ids2
    o["cnt2"] = cnt2
    cntAt, nn = [], []
    for t in times:
        try:
            r = _rat(g.interactions_per_snapshots(L.time(t)), err, "cntAt:")
            if r is not None:
                cntAt.append([t] + r)
        except Exception as ex:
            err.append("cntAt:exc:" + exc_name(ex))
        try:
            n_ = g.number_of_nodes(L.time(t))
            if as_int(n_) is None:
                err.append("nn:type")
            else:
                nn.append([t, as_int(n_)])
        except Exception as ex:
            err.append("nn:exc:" + exc_name(ex))
    o["cntAt"] = cntAt
    o["nn"] = nn
    try:
        r = _rat(g.avg_number_of_nodes(), err, "avg:")
        o["avg"] = r if r is not None else []
    except Exception:
        o["avg"] = []

    # stream
    try:
        st = list(g.stream_interactions())
        rawparts.append(repr(st))
    except Exception as ex:
        st = []
        err.append("stream:exc:" + exc_name(ex))
    o["stream"] = _stream(L, st, err, "stream:")
    try:
        o["stream2"] = _stream(L, list(dn.stream_interactions(g)), err, "stream2:")
    except Exception as ex:
        o["stream2"] = []
        err.append("stream2:exc:" + exc_name(ex))

    # frozen flag and graph attributes are part of the raw digest
    try:
        rawparts.append(repr(dn.is_frozen(g)))
        rawparts.append(repr(sorted(g.graph.items(), key=repr)))
    except Exception as ex:
        rawparts.append("rawexc:" + exc_name(ex))
    o["err"] = sorted(set(err))
    o["raw"] = hashlib.md5("\x00".join(rawparts).encode("utf-8", "backslashreplace")).hexdigest()[:12]
    return o
