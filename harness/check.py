"""Entry point: bin/check --property Cxx [--tier quick|thorough]

exit 0: the property held on everything explored (KNOWN-FINDING lines may be printed)
exit 1: VIOLATION property=<id> replay=<path>
exit 2: machinery failure (nothing is claimed)
"""
import argparse
import os
import sys
import traceback


def main():
    ap = argparse.ArgumentParser()
    ap.add_argument("--property", required=True)
    ap.add_argument("--tier", default=os.environ.get("VERIF_TIER", "quick"), choices=["quick", "thorough"])
    ap.add_argument("--no-evidence", action="store_true", help="self-test runs must not overwrite the evidence file")
    a = ap.parse_args()
    seed = int(os.environ.get("VERIF_SEED", "0") or 0)
    prop = a.property
    try:
        from . import runner
        if a.no_evidence:
            runner.EVID = os.path.join(runner.OUT, "evidence-scratch")
        runner.clean_out_for(prop)
        if prop in ("C01", "C03", "C04", "C05", "C07", "C08"):
            from . import check_core
            rc = check_core.run(prop, a.tier, seed)
        elif prop == "C02":
            from . import check_c02
            rc = check_c02.run(prop, a.tier, seed)
        elif prop in ("C06", "C16", "C09", "C10", "C11"):
            from . import check_derived
            rc = check_derived.run(prop, a.tier, seed)
        elif prop == "C18":
            from . import check_c18
            rc = check_c18.run(prop, a.tier, seed)
        elif prop in ("C12", "C13", "C15"):
            from . import check_paths
            rc = check_paths.run(prop, a.tier, seed)
        elif prop == "C14":
            from . import check_c14
            rc = check_c14.run(prop, a.tier, seed)
        elif prop == "C17":
            from . import check_c17
            rc = check_c17.run(prop, a.tier, seed)
        elif prop == "C19":
            from . import check_c19
            rc = check_c19.run(prop, a.tier, seed)
        elif prop == "C20":
            from . import check_c20
            rc = check_c20.run(prop, a.tier, seed)
        else:
            print("no check for %s" % prop)
            rc = 2
    except SystemExit:
        raise
    except BaseException:
        traceback.print_exc()
        print("MACHINERY-FAILURE property=%s" % prop)
        rc = 2
    sys.exit(rc)


if __name__ == "__main__":
    main()
