"""python -m harness.ingest <name> <property> <patch.diff> <demo.py> "<needs>"

Confirms a change proposed by a sub-agent independently of the sub-agent and
stores it as /verif/seeded/<name>/ (patch.diff, demo, meta.json):
 * a scratch copy of /repo's working tree is made under /var/tmp,
 * the demo must exit 0 on the unchanged copy,
 * the patch must apply, the repository's tests must all pass with it,
 * the demo must exit 1 with it.
Nothing is stored when one of these fails.  The scratch copy is removed."""
import json
import os
import shutil
import subprocess
import sys

VERIF = os.path.dirname(os.path.dirname(os.path.abspath(__file__)))


def sh(cmd):
    return subprocess.run(cmd, shell=True, stdout=subprocess.PIPE, stderr=subprocess.STDOUT, text=True)


def main():
    name, prop, patch, demo, needs = sys.argv[1:6]
    scratch = "/var/tmp/ingest-%s-%d" % (name, os.getpid())
    shutil.rmtree(scratch, ignore_errors=True)
    os.makedirs(scratch)
    try:
        sh("cd /repo && git ls-files -z | xargs -0 cp --parents -t %s" % scratch)
        dn = os.path.basename(demo)
        shutil.copy(demo, os.path.join(scratch, dn))
        r0 = sh("cd %s && PYTHONHASHSEED=0 /venv/bin/python %s" % (scratch, dn))
        if r0.returncode != 0:
            print("REJECTED: demo exits %d on the unchanged tree\n%s" % (r0.returncode, r0.stdout[-2000:]))
            return 1
        r = sh("cd %s && git init -q . && git apply --whitespace=nowarn %s" % (scratch, os.path.abspath(patch)))
        if r.returncode != 0:
            print("REJECTED: patch does not apply\n" + r.stdout)
            return 1
        t = sh("cd %s && /venv/bin/python -m pytest -q -p no:cacheprovider dynetx/test 2>&1 | tail -1" % scratch)
        tests = t.stdout.strip()
        if "failed" in tests or "error" in tests or "passed" not in tests:
            print("REJECTED: repository tests with the patch: " + tests)
            return 1
        r1 = sh("cd %s && PYTHONHASHSEED=0 /venv/bin/python %s" % (scratch, dn))
        if r1.returncode != 1:
            print("REJECTED: demo exits %d with the patch\n%s" % (r1.returncode, r1.stdout[-2000:]))
            return 1
        d = os.path.join(VERIF, "seeded", name)
        os.makedirs(d, exist_ok=True)
        shutil.copy(patch, os.path.join(d, "patch.diff"))
        shutil.copy(demo, os.path.join(d, dn))
        meta = {"property": prop, "needs": needs, "checks": [prop],
                "origin": "independent sub-agent given only the property text and a scratch worktree",
                "confirmed": {"demo_exit_without_patch": 0, "demo_exit_with_patch": 1, "repo_tests_with_patch": tests,
                              "how": "patch applied to a fresh scratch copy of /repo's working tree under /var/tmp; demo run with and "
                                     "without; dynetx/test run with"}}
        with open(os.path.join(d, "meta.json"), "w") as f:
            json.dump(meta, f, indent=1)
        print("STORED %s: %s; demo 0 -> 1\n%s" % (name, tests, r1.stdout[-600:]))
        return 0
    finally:
        shutil.rmtree(scratch, ignore_errors=True)


if __name__ == "__main__":
    sys.exit(main())
