"""C02 query battery: call every query entry point of a graph over the
observation grid and project the results (no expectations here; the expected
values are spec/Queries.tla)."""
import itertools

from . import core
from collections.abc import Mapping

from .core import NoT, exc_name, _rat, as_bool, as_int

dn = core.dn


def _pairs(L, items, three=True):
    out = []
    for it in items:
        if not isinstance(it, (tuple, list)) or len(it) not in (2, 3):
            return None
        try:
            out.append([L.anode(it[0]), L.anode(it[1])])
        except (KeyError, TypeError):
            return None
    return out


def _nodes(L, items):
    out = []
    for it in items:
        try:
            out.append(L.anode(it))
        except (KeyError, TypeError):
            return None
    return out


def _entry(q, t, nb, n, m, k, v):
    return {"q": q, "t": t, "all": nb is None, "nb": list(nb or []), "n": n, "m": m, "k": k, "v": v}


def _call(entries, q, t, nb, n, m, kind, fn, L):
    """run fn(); project according to kind"""
    try:
        r = fn()
        if kind == "pairs":
            v = _pairs(L, list(r))
        elif kind == "nodes":
            v = _nodes(L, list(r))
        elif kind == "attrs":
            v = []
            for x in list(r):
                if not (isinstance(x, (tuple, list)) and len(x) == 2 and isinstance(x[1], Mapping)):
                    v = None
                    break
                a = x[1].get("lab", 0)
                v.append([L.anode(x[0]), as_int(a) if as_int(a) is not None else -1])
        elif kind == "int":
            v = as_int(r)
        elif kind == "bool":
            v = as_bool(r)
        elif kind == "degmap":
            try:
                items = list(r.items()) if isinstance(r, Mapping) else [tuple(x) for x in r]   # dict, view or (node, degree) pairs
            except TypeError:
                items = None
            if items is not None and all(len(x) == 2 for x in items):
                v = []
                for a, b in items:
                    if as_int(b) is None:
                        v = None
                        break
                    v.append([L.anode(a), as_int(b)])
            else:
                v = None
        elif kind == "rat":
            err = []
            v = _rat(r, err, "")
        elif kind == "ints":
            r = list(r)
            v = [as_int(x) for x in r] if all(as_int(x) is not None for x in r) else None
        elif kind == "times":
            kind = "ints"
            v = [L.atime(x) for x in list(r)]
        else:
            raise AssertionError(kind)
        if v is None:
            entries.append(_entry(q, t, nb, n, m, "shape", type(r).__name__))
        else:
            entries.append(_entry(q, t, nb, n, m, kind, v))
    except AssertionError:
        raise
    except Exception as ex:
        entries.append(_entry(q, t, nb, n, m, "exc", exc_name(ex)))


def queries(g, L, known, grid, rng=None, nb_limit=None, times=None):
    """All C02 entry points over grid instants + t omitted; returns list of entries."""
    directed = bool(g.is_directed())
    E = []
    present = [n for n in known if g.has_node(L.node(n))]
    unknown = max(known) + 1
    L.node(unknown)
    nbs = [None] + [[n] for n in present]
    if len(present) >= 2:
        nbs.append(present[:2])
    if len(present) >= 3:
        nbs.append(present[1:3])
    nbs.append(([present[0]] if present else []) + [unknown])
    nbs.append([unknown])
    nbs.append([])      # an empty nbunch restricts the answer to no node at all
    if nb_limit and len(nbs) > nb_limit and rng:
        nbs = [None] + rng.sample(nbs[1:], nb_limit - 1)
    ts = [NoT] + (list(times) if times is not None else list(range(grid[0], grid[1] + 1)))

    def cn(n):
        return L.node(n)

    def cnb(nb):
        """the nbunch as some container of nodes (the kind is seeded): a maker of a fresh container per call"""
        if nb is None:
            return lambda: None
        c = [cn(x) for x in nb]
        kind = rng.choice(["list", "list", "tuple", "set", "keys", "iter"]) if rng else "list"
        return {"list": lambda: list(c), "tuple": lambda: tuple(c), "set": lambda: set(c),
                "keys": lambda: dict.fromkeys(c).keys(), "iter": lambda: iter(list(c))}[kind]

    for t in ts:
        ct = None if t == NoT else L.time(t)
        for nb in nbs:
            fresh = cnb(nb)
            _call(E, "interactions", t, nb, 0, 0, "pairs", lambda: g.interactions(fresh(), t=ct), L)
            _call(E, "interactions_iter", t, nb, 0, 0, "pairs", lambda: g.interactions_iter(fresh(), t=ct), L)
            _call(E, "dn_interactions", t, nb, 0, 0, "pairs", lambda: dn.interactions(g, fresh(), t=ct), L)
            _call(E, "degree", t, nb, 0, 0, "degmap", lambda: g.degree(fresh(), t=ct), L)
            _call(E, "degree_iter", t, nb, 0, 0, "degmap", lambda: dict(g.degree_iter(fresh(), t=ct)), L)
            _call(E, "dn_degree", t, nb, 0, 0, "degmap", lambda: dn.degree(g, fresh(), t=ct), L)
            if directed:
                _call(E, "in_interactions", t, nb, 0, 0, "pairs", lambda: g.in_interactions(fresh(), t=ct), L)
                _call(E, "out_interactions", t, nb, 0, 0, "pairs", lambda: g.out_interactions(fresh(), t=ct), L)
                _call(E, "in_interactions_iter", t, nb, 0, 0, "pairs", lambda: g.in_interactions_iter(fresh(), t=ct), L)
                _call(E, "out_interactions_iter", t, nb, 0, 0, "pairs", lambda: g.out_interactions_iter(fresh(), t=ct), L)
                _call(E, "in_degree", t, nb, 0, 0, "degmap", lambda: g.in_degree(fresh(), t=ct), L)
                _call(E, "out_degree", t, nb, 0, 0, "degmap", lambda: g.out_degree(fresh(), t=ct), L)
                _call(E, "in_degree_iter", t, nb, 0, 0, "degmap", lambda: dict(g.in_degree_iter(fresh(), t=ct)), L)
                _call(E, "out_degree_iter", t, nb, 0, 0, "degmap", lambda: dict(g.out_degree_iter(fresh(), t=ct)), L)
        for n in present:
            c = cn(n)
            _call(E, "neighbors", t, None, n, 0, "nodes", lambda: g.neighbors(c, t=ct), L)
            _call(E, "neighbors_iter", t, None, n, 0, "nodes", lambda: g.neighbors_iter(c, t=ct), L)
            _call(E, "dn_neighbors", t, None, n, 0, "nodes", lambda: dn.neighbors(g, c, t=ct), L)
            _call(E, "dn_all_neighbors", t, None, n, 0, "nodes", lambda: dn.all_neighbors(g, c, t=ct), L)
            _call(E, "dn_non_neighbors", t, None, n, 0, "nodes", lambda: dn.non_neighbors(g, c, t=ct), L)
            _call(E, "degree1", t, None, n, 0, "int", lambda: g.degree(c, t=ct), L)
            _call(E, "has_node", t, None, n, 0, "bool", lambda: g.has_node(c, t=ct), L)
            if directed:
                _call(E, "successors", t, None, n, 0, "nodes", lambda: g.successors(c, t=ct), L)
                _call(E, "predecessors", t, None, n, 0, "nodes", lambda: g.predecessors(c, t=ct), L)
                _call(E, "successors_iter", t, None, n, 0, "nodes", lambda: g.successors_iter(c, t=ct), L)
                _call(E, "predecessors_iter", t, None, n, 0, "nodes", lambda: g.predecessors_iter(c, t=ct), L)
                _call(E, "in_degree1", t, None, n, 0, "int", lambda: g.in_degree(c, t=ct), L)
                _call(E, "out_degree1", t, None, n, 0, "int", lambda: g.out_degree(c, t=ct), L)
            for m in present + [unknown]:
                cm = cn(m)
                _call(E, "number_of_interactions_uv", t, None, n, m, "int",
                      lambda: g.number_of_interactions(c, cm, t=ct), L)
                _call(E, "dn_number_of_interactions_uv", t, None, n, m, "int",
                      lambda: dn.number_of_interactions(g, c, cm, t=ct), L)
                if directed:
                    _call(E, "has_successor", t, None, n, m, "bool", lambda: g.has_successor(c, cm, t=ct), L)
                    _call(E, "has_predecessor", t, None, n, m, "bool", lambda: g.has_predecessor(c, cm, t=ct), L)
        _call(E, "has_node", t, None, unknown, 0, "bool", lambda: g.has_node(cn(unknown), t=ct), L)
        _call(E, "nodes", t, None, 0, 0, "nodes", lambda: g.nodes(t=ct), L)
        _call(E, "nodes_iter", t, None, 0, 0, "nodes", lambda: g.nodes_iter(t=ct), L)
        _call(E, "dn_nodes", t, None, 0, 0, "nodes", lambda: dn.nodes(g, t=ct), L)
        _call(E, "nodes_data", t, None, 0, 0, "attrs", lambda: g.nodes(t=ct, data=True), L)
        _call(E, "number_of_nodes", t, None, 0, 0, "int", lambda: g.number_of_nodes(t=ct), L)
        _call(E, "dn_number_of_nodes", t, None, 0, 0, "int", lambda: dn.number_of_nodes(g, t=ct), L)
        if not directed:
            _call(E, "order", t, None, 0, 0, "int", lambda: g.order(t=ct), L)
        _call(E, "number_of_interactions", t, None, 0, 0, "int", lambda: g.number_of_interactions(t=ct), L)
        _call(E, "dn_number_of_interactions", t, None, 0, 0, "int", lambda: dn.number_of_interactions(g, t=ct), L)
        _call(E, "size", t, None, 0, 0, "int", lambda: g.size(t=ct), L)
        _call(E, "dn_density", t, None, 0, 0, "rat", lambda: dn.density(g, t=ct), L)
        if present:
            _call(E, "dn_degree_histogram", t, None, 0, 0, "ints", lambda: dn.degree_histogram(g, t=ct), L)
        _call(E, "dn_non_interactions", t, None, 0, 0, "pairs", lambda: dn.non_interactions(g, t=ct), L)
    for n in present:
        _call(E, "get_node_snapshots", NoT, None, n, 0, "times", lambda: g.get_node_snapshots(cn(n)), L)
    _call(E, "dn_is_empty", NoT, None, 0, 0, "bool", lambda: dn.is_empty(g), L)
    _call(E, "dn_get_node_attributes", NoT, None, 0, 0, "attrs", lambda: list((n, {"lab": a}) for n, a in dn.get_node_attributes(g, "lab").items()), L)
    return E
