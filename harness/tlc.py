"""Running TLC: model checking configs, state dumps, sharded trace validation."""
import json
import os
import re
import shutil
import subprocess
import tempfile
import time
from concurrent.futures import ThreadPoolExecutor

from . import tlaval

VERIF = os.path.dirname(os.path.dirname(os.path.abspath(__file__)))
SPEC = os.path.join(VERIF, "spec")
OUT = os.environ.get("VERIF_OUT", os.path.join(VERIF, "out"))
JAR = "/opt/veriftools/tla/tla2tools.jar:/opt/veriftools/tla/CommunityModules-deps.jar"


class MachineryError(Exception):
    pass


def _java(args, env=None, timeout=3600, cwd=SPEC, heap="3g", extra_jvm=()):
    # TLC and SANY create scratch directories in java.io.tmpdir and leave them behind: keep them out of /tmp
    os.makedirs(os.path.join(OUT, "meta"), exist_ok=True)
    jtmp = tempfile.mkdtemp(prefix="jtmp-", dir=os.path.join(OUT, "meta"))
    cmd = (["java", "-XX:+UseParallelGC", "-Xss512m", "-Xmx" + heap, "-Djava.io.tmpdir=" + jtmp] + list(extra_jvm)
           + ["-cp", JAR, "tlc2.TLC"] + args)
    e = dict(os.environ)
    if env:
        e.update(env)
    t0 = time.time()
    try:
        p = subprocess.run(cmd, cwd=cwd, env=e, stdout=subprocess.PIPE, stderr=subprocess.STDOUT,
                           timeout=timeout, text=True)
        out, rc = p.stdout, p.returncode
    except subprocess.TimeoutExpired as ex:
        out = (ex.stdout or "")
        if isinstance(out, bytes):
            out = out.decode("utf-8", "replace")
        rc = -9
    finally:
        shutil.rmtree(jtmp, ignore_errors=True)
    return rc, out, time.time() - t0


_gen = re.compile(r"(\d[\d,]*) states generated, (\d[\d,]*) distinct states found, (\d[\d,]*) states left")


def run_mc(cfg, module, workers=8, timeout=1800, dump=None, tag=None, heap="6g", simulate=None, depth=None, seed=None):
    """Run a model checking config (one retry on a machinery failure). Returns dict with figures and violation info."""
    try:
        return _run_mc_once(cfg, module, workers, timeout, dump, tag, heap, simulate, depth, seed)
    except MachineryError:
        time.sleep(5)
        return _run_mc_once(cfg, module, workers, timeout, dump, tag, heap, simulate, depth, seed)


def _run_mc_once(cfg, module, workers=8, timeout=1800, dump=None, tag=None, heap="6g", simulate=None, depth=None, seed=None):
    tag = tag or os.path.splitext(os.path.basename(cfg))[0]
    meta = os.path.join(OUT, "meta", tag + "-%d" % os.getpid())
    shutil.rmtree(meta, ignore_errors=True)
    os.makedirs(meta, exist_ok=True)
    args = ["-workers", str(workers), "-metadir", meta, "-noGenerateSpecTE", "-config", cfg]
    if dump:
        args += ["-dump", dump]
    if simulate:
        args += ["-simulate", simulate]
        if depth:
            args += ["-depth", str(depth)]
        if seed is not None:
            args += ["-seed", str(seed)]
    args.append(module)
    rc, out, wall = _java(args, timeout=timeout, heap=heap)
    shutil.rmtree(meta, ignore_errors=True)
    res = {"cfg": cfg, "rc": rc, "wall_s": round(wall, 2), "generated": 0, "distinct": 0, "left": None,
           "violated": None, "completed": False, "output_tail": out[-3000:]}
    for m in _gen.finditer(out):
        res["generated"] = int(m.group(1).replace(",", ""))
        res["distinct"] = int(m.group(2).replace(",", ""))
        res["left"] = int(m.group(3).replace(",", ""))
    m = re.search(r"Invariant (\S+) is violated", out)
    if m:
        res["violated"] = m.group(1)
    m = re.search(r"Action property (\S+) is violated|Temporal properties were violated", out)
    if m and not res["violated"]:
        res["violated"] = m.group(1) or "temporal"
    if "Model checking completed. No error has been found." in out:
        res["completed"] = True
    if rc == -9:
        res["timeout"] = True
    elif not res["completed"] and not res["violated"] and not simulate:
        raise MachineryError("TLC failed on %s:\n%s" % (cfg, out[-4000:]))
    res["full_output"] = out
    return res


def _extract_prints(out, head):
    """Extract TLA values printed with PrintT that start with <<"head" (bracket matching)."""
    vals = []
    key = re.compile(r'<<\s*"%s"' % re.escape(head))
    i = 0
    while True:
        m = key.search(out, i)
        if not m:
            break
        j = m.start()
        depth = 0
        k = j
        instr = False
        while k < len(out):
            ch = out[k]
            if instr:
                if ch == '\\':
                    k += 1
                elif ch == '"':
                    instr = False
            else:
                if ch == '"':
                    instr = True
                elif out.startswith("<<", k):
                    depth += 1
                    k += 1
                elif out.startswith(">>", k):
                    depth -= 1
                    k += 1
                    if depth == 0:
                        break
            k += 1
        vals.append(out[j:k + 1])
        i = k + 1
    return vals


def _validate_shard(args):
    """one retry: a JVM killed under memory pressure or a full disk is a transient machinery problem, not a verdict"""
    try:
        return _validate_shard_once(args)
    except MachineryError:
        time.sleep(5)
        return _validate_shard_once(args)


def _validate_shard_once(args):
    idx, traces, workdir, module, cfg, timeout = args
    path = os.path.join(workdir, "shard%03d.json" % idx)
    with open(path, "w") as f:
        json.dump(traces, f, separators=(",", ":"))
    meta = os.path.join(workdir, "meta%03d" % idx)
    a = ["-workers", "1", "-metadir", meta, "-noGenerateSpecTE", "-config", cfg, module]
    rc, out, wall = _java(a, env={"TRACE_FILE": path}, timeout=timeout, heap="2g")
    shutil.rmtree(meta, ignore_errors=True)
    verdicts = {}
    for txt in _extract_prints(out, "VERDICT"):
        v = tlaval.parse(txt)
        verdicts[v[1]] = {"lines": v[2], "fails": sorted(tuple(x) for x in v[3]),
                          "branches": sorted(tuple(x) for x in v[4]) if len(v) > 4 else []}
    if len(verdicts) != len(traces) or "Model checking completed. No error" not in out:
        keep = os.path.join(workdir, "failed_shard%03d.out" % idx)
        with open(keep, "w") as f:
            f.write(out)
        raise MachineryError("trace validation shard %d: %d verdicts for %d traces (rc=%s); TLC output in %s\n%s"
                             % (idx, len(verdicts), len(traces), rc, keep, out[-3000:]))
    os.remove(path)
    return idx, [verdicts[i + 1] for i in range(len(traces))], wall


def validate(traces, tag, module="Trace.tla", cfg="Trace.cfg", shards=16, timeout=3600):
    """Validate traces (list of list of line dicts) with TLC; returns one verdict per trace."""
    if not traces:
        return []
    workdir = os.path.join(OUT, "val", "%s-%d" % (tag, os.getpid()))
    shutil.rmtree(workdir, ignore_errors=True)
    os.makedirs(workdir, exist_ok=True)
    # balance shards by number of lines
    nsh = max(1, min(shards, len(traces)))
    order = sorted(range(len(traces)), key=lambda i: -len(traces[i]))
    buckets = [[] for _ in range(nsh)]
    loads = [0] * nsh
    for i in order:
        b = loads.index(min(loads))
        buckets[b].append(i)
        loads[b] += len(traces[i]) + 1
    jobs = [(b, [traces[i] for i in buckets[b]], workdir, module, cfg, timeout) for b in range(nsh) if buckets[b]]
    verdicts = [None] * len(traces)
    with ThreadPoolExecutor(max_workers=nsh) as ex:
        for idx, vs, _wall in ex.map(_validate_shard, jobs):
            for i, v in zip(buckets[idx], vs):
                verdicts[i] = v
    shutil.rmtree(workdir, ignore_errors=True)
    return verdicts
