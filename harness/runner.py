"""Shared machinery of the property checks: chunked trace generation (process
pool) + TLC validation, verdict bookkeeping, known findings, evidence files."""
import hashlib
import json
import multiprocessing as mp
import os
import shutil
import sys
import time

from . import tlc

VERIF = tlc.VERIF
OUT = tlc.OUT
EVID = os.path.join(VERIF, "evidence")
KF_FILE = os.path.join(VERIF, "known_findings.json")


def load_known_findings():
    with open(KF_FILE) as f:
        data = json.load(f)
    return {k["id"]: k for k in data["findings"]}


def _strip_line(line):
    return {k: v for k, v in line.items() if k != "obs"}


def _sample_line(line):
    """a trace line for the evidence file: bulky fields are summarised"""
    out = {}
    for k, v in line.items():
        if k in ("obs", "cobs", "src", "src2"):
            continue
        if isinstance(v, list) and len(v) > 6:
            out[k] = v[:6] + ["... %d more" % (len(v) - 6)]
        else:
            out[k] = v
    return out


class Check:
    def __init__(self, prop, tier, seed, prefixes=None, level="model_checking"):
        self.prop = prop
        self.tier = tier
        self.seed = seed
        self.prefixes = tuple(prefixes or (prop,))
        self.level = level
        self.t0 = time.time()
        self.mc = []
        self.traces = 0
        self.lines = 0
        self.fork_lines = 0
        self.distinct = set()
        self.samples = []
        self.violations = []       # dicts
        self.viol_keys = set()
        self.kf_hits = {}
        self.clause_fail_counts = {}
        self.branch_hits = {}
        self.beyond = {}           # failing instances of the X* clauses (behaviour beyond the listed properties)
        self.beyond_lines = 0
        self.notes = []
        self.extra = {}
        self.assumptions = []
        self.kf = load_known_findings()
        os.makedirs(os.path.join(OUT, "violations"), exist_ok=True)

    # ------------------------------------------------------------------ model checking
    def add_mc(self, res, what):
        r = {k: res[k] for k in ("cfg", "wall_s", "generated", "distinct", "completed", "violated") if k in res}
        r["what"] = what
        if res.get("timeout"):
            r["timeout"] = True
        self.mc.append(r)
        if res.get("violated"):
            path = os.path.join(OUT, "violations", "%s-model-%s.txt" % (self.prop, os.path.basename(res["cfg"])))
            with open(path, "w") as f:
                f.write(res.get("full_output", ""))
            self.violations.append({"kind": "model", "clause": res["violated"], "replay": path})

    # ------------------------------------------------------------------ traces
    def judge(self, traces, verdicts, metas=None):
        for i, (tr, v) in enumerate(zip(traces, verdicts)):
            self.traces += 1
            self.lines += len(tr)
            prev_raw = ""
            for ln in tr:
                if ln.get("kind") in ("subgraph", "empty_copy") or any(
                        isinstance(e, dict) and str(e.get("fn", "")).startswith("x_") for e in ln.get("es", ()) if ln.get("op") == "stats"):
                    self.beyond_lines += 1
                if ln.get("fork"):
                    self.fork_lines += 1
                call = json.dumps(_strip_line(ln), sort_keys=True)
                raw = ln.get("obs", {}).get("raw", "") if isinstance(ln.get("obs"), dict) else ""
                if ln["op"] not in ("new", "observe") and not (prev_raw == tr[0].get("obs", {}).get("raw") and ln.get("res") != "ok"):
                    self.distinct.add(hashlib.md5((prev_raw + call).encode()).digest()[:8])
                if not ln.get("fork"):
                    prev_raw = raw
            if len(self.samples) < 3 and (len(tr) > 2 or tr[-1]["op"] not in ("new", "observe")):
                self.samples.append([_sample_line(x) for x in tr[:12]])
            for br in v.get("branches", ()):
                k = "%s/%s" % (br[0], br[1])
                self.branch_hits[k] = self.branch_hits.get(k, 0) + 1
            for (lno, clause, status) in v["fails"]:
                if clause.startswith("X"):
                    # behaviour beyond the listed properties: specified and judged, reported, never a violation
                    self.beyond[clause] = self.beyond.get(clause, 0) + 1
                    continue
                if not clause.startswith(self.prefixes):
                    continue
                if status.startswith("KF"):
                    if status in self.kf and self.kf[status]["status"] == "open":
                        self.kf_hits[status] = self.kf_hits.get(status, 0) + 1
                        continue
                    status = "fail"  # a fixed or unknown finding explains nothing
                self.clause_fail_counts[clause] = self.clause_fail_counts.get(clause, 0) + 1
                key = clause
                if key in self.viol_keys and len(self.violations) >= 40:
                    continue
                if sum(1 for x in self.violations if x.get("clause") == clause) >= 3:
                    continue
                self.viol_keys.add(key)
                rec = {"kind": "trace", "property": self.prop, "clause": clause, "line": lno,
                       "trace": [_strip_line(x) for x in tr[:lno]],
                       "observation": tr[lno - 1].get("obs"),
                       "meta": (metas[i] if metas else None)}
                h = hashlib.md5(json.dumps(rec["trace"], sort_keys=True).encode()).hexdigest()[:10]
                path = os.path.join(OUT, "violations", "%s-%s-%s.json" % (self.prop, clause.split("_")[1] if "_" in clause else "x", h))
                with open(path, "w") as f:
                    json.dump(rec, f, indent=1)
                rec["replay"] = path
                self.violations.append(rec)

    def run_jobs(self, fn, jobs, tag, chunk=1500, procs=None, module="Trace.tla", cfg="Trace.cfg"):
        """fn(job) -> trace (list of lines) or list of traces; validated chunk by chunk."""
        procs = procs or min(16, os.cpu_count() or 4)
        if not jobs:
            return
        ctx = mp.get_context("fork")
        with ctx.Pool(procs) as pool:
            for a in range(0, len(jobs), chunk):
                part = jobs[a:a + chunk]
                res = pool.map(fn, part, chunksize=max(1, len(part) // (procs * 4)))
                traces, metas = [], []
                fname = "%s.%s" % (fn.__module__, fn.__name__)
                for job, r in zip(part, res):
                    if r and isinstance(r[0], list):
                        for k, t in enumerate(r):
                            traces.append(t)
                            metas.append({"fn": fname, "job": job, "index": k})
                    else:
                        traces.append(r)
                        metas.append({"fn": fname, "job": job, "index": None})
                verdicts = tlc.validate(traces, "%s-%s-%d" % (self.prop, tag, a), module=module, cfg=cfg)
                self.judge(traces, verdicts, metas)

    # ------------------------------------------------------------------ results
    def finish(self, rule, exhaustive=False, explanation=None):
        wall = time.time() - self.t0
        nviol = len(self.violations)
        states = sum(m["distinct"] for m in self.mc)
        trans = sum(m["generated"] for m in self.mc)
        cov = {
            "states": states,
            "transitions": trans,
            "traces_validated_against_impl": self.traces,
            "evaluations": self.lines,
            "fork_lines": self.fork_lines,
            "distinct_nontrivial": len(self.distinct),
            "rule": rule,
            "samples": self.samples or [{"note": "no trace produced"}],
            "exhaustive": bool(exhaustive),
            "model_checking": self.mc,
            "known_findings_hit": {k: {"instances": n, "what": self.kf[k]["what"]} for k, n in sorted(self.kf_hits.items())},
            "failing_clauses": self.clause_fail_counts,
            "add_interaction_branches_on_real_code": dict(sorted(self.branch_hits.items())),
        }
        if self.beyond_lines or self.beyond:
            cov["beyond_the_listed_properties"] = {
                "note": "clauses X* specify behaviour no listed property states (subgraph views, create_empty_copy, the pair form of "
                        "the inter-event distribution); deviations are reported here and are never a violation",
                "lines_judged": self.beyond_lines, "deviating_clause_instances": dict(sorted(self.beyond.items()))}
        if explanation:
            cov["explanation"] = explanation
        cov.update(self.extra)
        ev = {"property_id": self.prop, "tier": self.tier, "seed": self.seed, "level": self.level,
              "coverage": cov, "assumptions": self.assumptions, "wall_s": round(wall, 2), "violations": nviol}
        os.makedirs(EVID, exist_ok=True)
        with open(os.path.join(EVID, self.prop + ".json"), "w") as f:
            json.dump(ev, f, indent=1, sort_keys=True)
        for k, n in sorted(self.kf_hits.items()):
            print("KNOWN-FINDING: property=%s %s (%d instances) %s" % (self.prop, k, n, self.kf[k]["what"]))
        seen = set()
        for v in self.violations:
            if v["replay"] in seen:
                continue
            seen.add(v["replay"])
            print("VIOLATION property=%s replay=%s clause=%s" % (self.prop, v["replay"], v.get("clause")))
        print("%s %s: %d model states, %d transitions, %d traces / %d lines validated, %d violations, %.1fs"
              % (self.prop, self.tier, states, trans, self.traces, self.lines, nviol, wall))
        sys.stdout.flush()
        return 1 if nviol else 0


def clean_out_for(prop):
    """remove what an earlier run of the same check left behind (other checks may run concurrently)"""
    import glob
    os.makedirs(os.path.join(OUT, "violations"), exist_ok=True)
    for p in glob.glob(os.path.join(OUT, "violations", prop + "-*")):
        os.remove(p)
    for p in glob.glob(os.path.join(tlc.SPEC, "_gen_*.cfg")):
        # generated configs are removed by the run that wrote them; only stale leftovers (a killed run) are swept
        try:
            if time.time() - os.path.getmtime(p) > 6 * 3600:
                os.remove(p)
        except OSError:
            pass
