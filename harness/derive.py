"""Derived graphs: apply a constructor (time_slice, conversions, write/read
round trips) to a real graph and record a 'derive' line (spec/Derived.tla)."""
from . import battery, core
from .core import NoEnd, exc_name

dn = core.dn


def derive_line(g, L, known, grid, kind, args, rng=None, with_battery=True, mutate=False, times=None):
    """args: dict with f, g (window), f2, g2, recip, form ..."""
    line = {"op": "derive", "kind": kind, "fork": False}
    line.update(args)
    H = None
    try:
        if kind == "time_slice":
            f = L.time(args["f"])
            if args.get("gomit"):
                H = dn.time_slice(g, f) if args.get("form") == "function" else g.time_slice(f)
            else:
                t = L.time(args["g"])
                H = dn.time_slice(g, f, t) if args.get("form") == "function" else g.time_slice(f, t)
        elif kind == "time_slice2":
            H = g.time_slice(L.time(args["f"]), L.time(args["g"])).time_slice(L.time(args["f2"]), L.time(args["g2"]))
        elif kind == "to_directed":
            H = g.to_directed()
        elif kind == "to_undirected":
            H = g.to_undirected(reciprocal=True) if args.get("recip") else g.to_undirected()
        elif kind == "subgraph":           # beyond the listed properties (X01)
            nb = [L.node(n) for n in args["nb"]]
            H = dn.subgraph(g, nb) if args.get("form") == "function" else g.subgraph(nb)
        elif kind == "empty_copy":         # beyond the listed properties (X01)
            H = dn.create_empty_copy(g, with_data=bool(args["withdata"]))
        else:
            raise AssertionError(kind)
        res = "ok"
    except AssertionError:
        raise
    except Exception as ex:
        res = exc_name(ex)
    line["res"] = res
    line["src"] = core.observe(g, L, known, grid)
    if H is not None:
        line["hcls"] = type(H).__name__
        try:
            line["hdir"] = bool(H.is_directed())
        except Exception:
            line["hdir"] = False
        line["obs"] = core.observe(H, L, known, grid)
        line["q"] = battery.queries(H, L, known, grid, rng=rng, nb_limit=4, times=times) if with_battery else []
        if mutate:
            try:
                for n, d in H.nodes(data=True):
                    d["lab"] = 77
                    if isinstance(d.get("nest"), list):
                        d["nest"].append(99)
                    if isinstance(d.get("nestd"), dict):
                        d["nestd"]["k"] = [0]
                H.graph["mutated"] = [1]
                if isinstance(H.graph.get("gnest"), list):
                    H.graph["gnest"].append(5)
                H.add_interaction(L.node(known[0]), L.node(known[-1]), t=L.time(grid[1]))
            except Exception as ex:
                line["mutexc"] = exc_name(ex)
        line["src2"] = core.observe(g, L, known, grid)
    else:
        line["src2"] = line["src"]
    return line


# --------------------------------------------------------------------------- write / read round trips (C09, C10, C11)
import bz2  # noqa: E402
import gzip  # noqa: E402
import hashlib  # noqa: E402
import io  # noqa: E402
import json  # noqa: E402
import os  # noqa: E402
import tempfile  # noqa: E402

from .tlc import OUT  # noqa: E402


def _dig(x):
    try:
        return hashlib.md5(json.dumps(x, sort_keys=True, default=repr).encode()).hexdigest()[:10]
    except Exception as ex:
        return "undigestible:" + exc_name(ex)


def _node_digests(G, L):
    out = []
    try:
        for n, d in G.nodes(data=True):
            try:
                out.append([L.anode(n), _dig(d)])
            except (KeyError, TypeError):
                out.append([0, "unknown-node"])
    except Exception as ex:
        out.append([0, "exc:" + exc_name(ex)])
    return out


def _read_bytes(target, path, fobj):
    if target == "fileobj":
        return fobj.getvalue()
    if target == "gz":
        with gzip.open(path, "rb") as f:
            return f.read()
    if target == "bz2":
        with bz2.open(path, "rb") as f:
            return f.read()
    with open(path, "rb") as f:
        return f.read()


def _tokenise(data, enc, delim, L, ncols, known):
    """strict tokeniser of what a writer produced; returns (rows, errors)"""
    errs = []
    rows = []
    back = {}
    for n in known:
        back[str(L.node(n))] = n
    try:
        txt = data.decode(enc)
    except Exception:
        return [], ["rows:undecodable"]
    parts = txt.split("\n")
    if parts[-1] != "":
        errs.append("rows:no-final-newline")
    for ln in parts[:-1]:
        f = ln.split(delim)
        if len(f) != ncols:
            errs.append("rows:field-count")
            continue
        try:
            u, v = back[f[0]], back[f[1]]
            if ncols == 3:
                rows.append([u, v, L.atime(int(f[2]))])
            else:
                if f[2] not in ("+", "-"):
                    raise KeyError(f[2])
                rows.append([u, v, f[2], L.atime(int(f[3]))])
        except (KeyError, ValueError):
            errs.append("rows:unknown-field")
    return rows, sorted(set(errs))


def io_line(g, L, known, grid, kind, cfg, rng=None, with_battery=True):
    """kind in snapshots | interactions | json; cfg: delim, enc, target, ..."""
    line = {"op": "derive", "kind": kind, "fork": False}
    line.update({k: v for k, v in cfg.items() if isinstance(v, (int, str, bool))})
    directed = bool(g.is_directed())
    H = None
    res = "ok"
    line["rows"] = []
    line["rowerr"] = []
    tmpdir = os.path.join(OUT, "tmp")
    os.makedirs(tmpdir, exist_ok=True)
    path = None
    try:
        if kind in ("snapshots", "interactions"):
            delim, enc, target = cfg["delim"], cfg["enc"], cfg["target"]
            sample = L.node(known[0])
            nodetype = float if isinstance(sample, float) else (int if isinstance(sample, int) else str)
            ext = {"plain": ".txt", "gz": ".gz", "bz2": ".bz2", "fileobj": ".txt"}[target]
            fd, path = tempfile.mkstemp(suffix=ext, dir=tmpdir)
            os.close(fd)
            fobj = None
            writer = dn.write_snapshots if kind == "snapshots" else dn.write_interactions
            reader = dn.read_snapshots if kind == "snapshots" else dn.read_interactions
            if target == "fileobj":
                fobj = io.BytesIO()
                writer(g, fobj, delimiter=delim, encoding=enc)
            else:
                writer(g, path, delimiter=delim, encoding=enc)
            data = _read_bytes(target, path, fobj)
            line["rows"], line["rowerr"] = _tokenise(data, enc, delim, L, 3 if kind == "snapshots" else 4, known)
            if target == "fileobj":
                with open(path, "wb") as f:
                    f.write(data)
                with open(path, "rb") as f:
                    H = reader(f, directed=directed, delimiter=delim, nodetype=nodetype, timestamptype=int, encoding=enc)
            else:
                H = reader(path, directed=directed, delimiter=delim, nodetype=nodetype, timestamptype=int, encoding=enc)
        elif kind == "json":
            from dynetx.readwrite import json_graph
            idkey = cfg.get("idkey", "id")
            attrs = dict(id=idkey, source="source", target="target")
            data = json_graph.node_link_data(g, attrs=attrs) if idkey != "id" else json_graph.node_link_data(g)
            line["ddir"] = data.get("directed") if isinstance(data.get("directed"), bool) else False
            line["ddirok"] = isinstance(data.get("directed"), bool)
            try:
                txt = json.dumps(data)
                line["dumps"] = "ok"
            except Exception as ex:
                line["dumps"] = exc_name(ex)
                raise
            links, dnodes, rowerr = [], [], []
            for d in data.get("links", []):
                try:
                    if set(d.keys()) != {"source", "target", "time"}:
                        rowerr.append("rows:link-keys")
                    links.append([L.anode(d["source"]), L.anode(d["target"]), L.atime(d["time"])])
                except (KeyError, TypeError):
                    rowerr.append("rows:link-shape")
            for d in data.get("nodes", []):
                try:
                    a = d.get("lab", 0)
                    dnodes.append([L.anode(d[idkey]), a if isinstance(a, int) and not isinstance(a, bool) else -1,
                                   _dig({k: v for k, v in d.items() if k != idkey})])
                except (KeyError, TypeError):
                    rowerr.append("rows:node-shape")
            line["rows"] = links
            line["dnodes"] = dnodes
            line["rowerr"] = sorted(set(rowerr))
            line["ggraph"] = _dig(g.graph)
            line["dgraph"] = _dig(data.get("graph"))
            back = json.loads(txt)
            haskey = not cfg.get("dropkey", False)
            if not haskey:
                del back["directed"]
            line["haskey"] = haskey
            line["argdir"] = bool(cfg.get("argdir", False))
            H = json_graph.node_link_graph(back, directed=line["argdir"], attrs=attrs) if idkey != "id" \
                else json_graph.node_link_graph(back, directed=line["argdir"])
        else:
            raise AssertionError(kind)
    except AssertionError:
        raise
    except Exception as ex:
        res = exc_name(ex)
    finally:
        if path and os.path.exists(path):
            os.remove(path)
    line["res"] = res
    line["src"] = core.observe(g, L, known, grid)
    line["src2"] = line["src"]
    line["gdig"] = _node_digests(g, L)
    if H is not None:
        line["hcls"] = type(H).__name__
        try:
            line["hdir"] = bool(H.is_directed())
        except Exception:
            line["hdir"] = False
        line["obs"] = core.observe(H, L, known, grid)
        line["q"] = battery.queries(H, L, known, grid, rng=rng, nb_limit=3) if with_battery else []
        line["hdig"] = _node_digests(H, L)
        line["hgraph"] = _dig(H.graph)
    return line
