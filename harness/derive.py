"""Derived graphs: apply a constructor (time_slice, conversions, write/read
round trips) to a real graph and record a 'derive' line (spec/Derived.tla)."""
from . import battery, core
from .core import NoEnd, exc_name

dn = core.dn


def derive_line(g, L, known, grid, kind, args, rng=None, with_battery=True, mutate=False, times=None):
    """args: dict with f, g (window), f2, g2, recip, form ..."""
    line = {"op": "derive", "kind": kind, "fork": False}
    line.update(args)
    H = None
    try:
        if kind == "time_slice":
            f = L.time(args["f"])
            if args.get("gomit"):
                H = dn.time_slice(g, f) if args.get("form") == "function" else g.time_slice(f)
            else:
                t = L.time(args["g"])
                H = dn.time_slice(g, f, t) if args.get("form") == "function" else g.time_slice(f, t)
        elif kind == "time_slice2":
            H = g.time_slice(L.time(args["f"]), L.time(args["g"])).time_slice(L.time(args["f2"]), L.time(args["g2"]))
        elif kind == "to_directed":
            H = g.to_directed()
        elif kind == "to_undirected":
            H = g.to_undirected(reciprocal=True) if args.get("recip") else g.to_undirected()
        else:
            raise AssertionError(kind)
        res = "ok"
    except AssertionError:
        raise
    except Exception as ex:
        res = exc_name(ex)
    line["res"] = res
    line["src"] = core.observe(g, L, known, grid)
    if H is not None:
        line["hcls"] = type(H).__name__
        try:
            line["hdir"] = bool(H.is_directed())
        except Exception:
            line["hdir"] = False
        line["obs"] = core.observe(H, L, known, grid)
        line["q"] = battery.queries(H, L, known, grid, rng=rng, nb_limit=4, times=times) if with_battery else []
        if mutate:
            try:
                for n, d in H.nodes(data=True):
                    d["lab"] = 77
                    if isinstance(d.get("nest"), list):
                        d["nest"].append(99)
                    if isinstance(d.get("nestd"), dict):
                        d["nestd"]["k"] = [0]
                H.graph["mutated"] = [1]
                if isinstance(H.graph.get("gnest"), list):
                    H.graph["gnest"].append(5)
                H.add_interaction(L.node(known[0]), L.node(known[-1]), t=L.time(grid[1]))
            except Exception as ex:
                line["mutexc"] = exc_name(ex)
        line["src2"] = core.observe(g, L, known, grid)
    else:
        line["src2"] = line["src"]
    return line
