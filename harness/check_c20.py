"""C20: delta-conformity is bounded, relabelling-invariant, consistent when sliding.

Labelled temporal graphs are taken from the TLC-enumerated graph domain of
spec/MCPaths.tla (plus seeded random graphs); for every label assignment over
two values and (start, delta, path type) the real delta_conformity is run on
the graph, on its value-renamed and node-renamed variants and on the one-label
variant, and sliding_delta_conformity is compared with the pointwise calls.
TLC judges the logged scores (spec/Conformity.tla); reachability for the
one-label clause is the declarative path set of spec/Paths.tla."""
import contextlib
import io
import itertools
import os
import random

from . import core, tlc
from .check_paths import _graphs, _build
from .runner import Check

import dynetx.algorithms as al  # noqa: E402

ALPHAS = [1, 2, 2.5]
PTYPES = ["shortest", "fastest", "foremost", "shortest_fastest", "fastest_shortest"]
SCALE = 10 ** 6


def _labelled(directed, triples, L, rng, nodes, labels, labels2=None):
    g = _build(directed, triples, L, random.Random(rng.random()))
    for n in nodes:
        if labels2 is None:
            g.add_node(L.node(n), lab=labels[n])
        else:
            g.add_node(L.node(n), lab=labels[n], lab2=labels2[n])
    return g


PROFILES = {1: ["lab"], 2: ["lab", "lab2", "lab_lab2"]}     # profile names for one label / two labels with profile_size 2


def akey(alpha, k):
    """one integer per (alpha, label profile): alpha * 100 + 1000 * index of the profile"""
    return int(round(float(alpha) * 100)) + 1000 * k


def _scores(L, r, nprof=1):
    """{'1.00': {'lab': {n: v}}} -> [[alpha key, n, val]]; a profile name the call was not asked for gets index 9"""
    out = []
    names = PROFILES[nprof]
    for a, prof in r.items():
        for pn, nv in prof.items():
            k = names.index(pn) if pn in names else 9
            for n, v in nv.items():
                out.append([akey(a, k), L.anode(n), int(round(v * SCALE))])
    return out


def _dc(g, L, start, delta, ptype, nprof=1):
    try:
        with contextlib.redirect_stderr(io.StringIO()):
            if nprof == 1:
                r = al.delta_conformity(g, L.time(start), delta, ALPHAS, ["lab"], path_type=ptype)
            else:
                r = al.delta_conformity(g, L.time(start), delta, ALPHAS, ["lab", "lab2"], profile_size=2, path_type=ptype)
        if r is None:
            return "none", []
        return "ok", _scores(L, r, nprof)
    except Exception as ex:
        return core.exc_name(ex), []


def job_conf(job):
    seed, triples, lab, lab2, tier, nodes = job[:6]
    mode = job[6] if len(job) > 6 else "mixed"
    directed = bool(job[7]) if len(job) > 7 else False
    rng = random.Random(seed)
    known = list(nodes)
    L = core.labeling(lab).prime(max(known) + 1)
    L2 = core.labeling(lab2).prime(max(known) + 1)
    L2.shift = L.shift
    ts = sorted({t for (_, _, t) in triples})
    grid = (min(ts) - 1, max(ts) + 2) if ts else (-1, 2)
    # label values are arbitrary hashable values: strings, integers, booleans, the empty string, 0 (falsy values included)
    vx, vy = rng.choice([("x", "y"), ("x", "y"), (1, 0), (0, 1), (True, False), ("", "y"), (2.5, -1)])
    rx, ry = rng.choice([("second", "first"), (0, 1), (1, 0), ("x", ""), (False, True)])
    one = rng.choice(["z", "z", 0, "", 7, False])
    labels = {n: (rng.choice([vx, vy]) if mode == "mixed" else vx) for n in known}
    ren = {vx: rx, vy: ry}
    # a share of the jobs scores two labels with profile_size 2 (three label profiles per alpha)
    nprof = 2 if rng.random() < 0.3 else 1
    l2 = {n: (rng.choice(["p", "q"]) if mode == "mixed" else "p") for n in known} if nprof == 2 else None
    ren2 = {"p": 5, "q": "five"}
    g = _labelled(directed, triples, L, rng, known, labels, l2)
    gv = _labelled(directed, triples, L, rng, known, {n: ren[v] for n, v in labels.items()},
                   {n: ren2[v] for n, v in l2.items()} if l2 else None)
    gn = _labelled(directed, triples, L2, rng, known, labels, l2)
    g1 = _labelled(directed, triples, L, rng, known, {n: one for n in known}, {n: "same" for n in known} if l2 else None)
    def conf_line(tier, trs):
        obs = core.observe(g, L, known, grid)
        combos = [(s, d, p) for s in range(grid[0], grid[1]) for d in range(0, grid[1] - grid[0]) for p in PTYPES]
        if mode == "one":
            # one-label graphs over the whole snapshot range, every path type (exact oracle: 1 iff the node reaches another)
            combos = [(ts[0], ts[-1] - ts[0], p) for p in PTYPES] if ts else []
        elif tier in ("quick", "slide"):
            combos = rng.sample(combos, min(len(combos), 8 if tier == "quick" else 3))
        else:
            combos = rng.sample(combos, min(len(combos), 40))
        es = []
        for (s, d, p) in combos:
            res, sc = _dc(g, L, s, d, p, nprof)
            e = {"start": s, "delta": d, "ptype": p, "res": res, "sc": sc,
                 "alphas": [akey(a, k) for a in ALPHAS for k in range(len(PROFILES[nprof]))], "nprof": nprof,
                 "rv": _dc(gv, L, s, d, p, nprof)[1], "rn": _dc(gn, L2, s, d, p, nprof)[1], "one": _dc(g1, L, s, d, p, nprof)[1]}
            es.append(e)
        ss = []
        nsl = 0 if mode == "one" else (len(PTYPES) if tier == "slide" else (2 if tier == "quick" else 6))
        for (d, p) in ([(rng.choice([1, 2, 3]), p) for p in PTYPES] if tier == "slide" else
                       rng.sample([(d, p) for d in range(0, 3) for p in PTYPES], nsl)):
            s = {"delta": d, "ptype": p, "sl": [], "per": []}
            try:
                with contextlib.redirect_stderr(io.StringIO()):   # progress bars
                    if nprof == 1:
                        r = al.sliding_delta_conformity(g, d, ALPHAS, ["lab"], path_type=p)
                    else:
                        r = al.sliding_delta_conformity(g, d, ALPHAS, ["lab", "lab2"], profile_size=2, path_type=p)
                s["res"] = "ok"
                for a, prof in r.items():
                    for pn, nv in prof.items():
                        k = PROFILES[nprof].index(pn) if pn in PROFILES[nprof] else 9
                        for n, seq in nv.items():
                            for (stamp, v) in seq:
                                s["sl"].append([akey(a, k), L.anode(n), L.atime(stamp), int(round(v * SCALE))])
            except Exception as ex:
                s["res"] = core.exc_name(ex)
            for t in obs["ids"]:
                res, sc = _dc(g, L, t, d, p, nprof)
                s["per"].append({"t": t, "res": res, "sc": sc})
            ss.append(s)
        return {"op": "conf", "fork": False, "res": "ok", "triples": [list(t) for t in trs],
                "labels": [[n, repr(labels[n])] for n in known], "label_values": repr([vx, vy, rx, ry, one]), "obs": obs, "es": es, "ss": ss}

    first = conf_line(tier, triples)
    more = []
    if mode != "one" and ts and rng.random() < 0.3:
        # the same four objects are changed inside the observed range (a pair that never interacted appears at an
        # existing snapshot id; otherwise some pair re-appears at the last id) and analysed again: a score may never
        # depend on what an earlier analysis saw
        had = {(a, b) for (a, b, _) in triples}
        free = [(a, b) for a in known for b in known if a < b and (a, b) not in had and (b, a) not in had]
        if free:
            (a, b), t = rng.choice(free), rng.choice(ts)
        else:
            (a, b), t = rng.choice(sorted(had)), ts[-1]
        ok = True
        for (gg, LL) in ((g, L), (gv, L), (gn, L2), (g1, L)):
            try:
                gg.add_interaction(LL.node(a), LL.node(b), t=LL.time(t))
            except Exception:
                ok = False
        if ok:
            more.append(conf_line("quick", sorted(set(map(tuple, triples)) | ({(a, b, t)} if directed else {(a, b, t), (b, a, t)}))))
    head = {"op": "new", "dir": directed, "rem": True, "fork": False, "res": "ok", "lab": lab,
            "obs": core.observe(core.new_graph(directed, True), L, known, grid)}
    return [head, first] + more


def run(prop, tier, seed):
    chk = Check(prop, tier, seed)
    rng = random.Random(seed)
    jobs = []
    for cfg in (["MC_paths_u3.cfg"] if tier == "quick" else ["MC_paths_u3.cfg", "MC_paths_u3t4.cfg"]):
        graphs = [tr for (d, tr) in _graphs(chk, cfg) if tr]
        nodes = sorted({n for tr in graphs for (a, b, _) in tr for n in (a, b)}) or [1, 2, 3]
        if tier == "quick":
            graphs = rng.sample(graphs, min(len(graphs), 120))
        else:
            graphs = rng.sample(graphs, min(len(graphs), 1500))
        for tr in graphs:
            jobs.append((rng.randrange(1 << 30), tr, rng.choice(["int", "zero", "str", "under"]), rng.choice(["neg", "big", "str", "int_rev", "tuple", "mixed", "under"]), tier, nodes))
    for _ in range(15 if tier == "quick" else 300):
        nn = rng.choice([4, 5])
        tm = rng.choice([3, 4, 5])
        tr = set()
        for _ in range(rng.randint(3, 2 * nn)):
            a, b = rng.randint(1, nn), rng.randint(1, nn)
            if a == b:
                continue
            t0 = rng.randint(0, tm)
            for t in range(t0, min(tm, t0 + rng.choice([0, 0, 1, 2])) + 1):
                tr.add((a, b, t))
                tr.add((b, a, t))
        if tr:
            jobs.append((rng.randrange(1 << 30), sorted(tr), "int", "str", "quick", list(range(1, nn + 1))))
    # directed graphs (sinks: nodes present at start that reach nobody): the 3-node x 2-instant directed domain + random ones
    dgraphs = [tr for (d, tr) in _graphs(chk, "MC_paths_d3.cfg") if tr]
    for tr in rng.sample(dgraphs, min(len(dgraphs), 60 if tier == "quick" else 800)):
        jobs.append((rng.randrange(1 << 30), tr, rng.choice(["int", "zero", "str"]), rng.choice(["neg", "big", "str", "tuple", "mixed"]),
                     tier, [1, 2, 3], rng.choice(["mixed", "one"]), True))
    for _ in range(10 if tier == "quick" else 200):
        nn = rng.choice([4, 5])
        tm = rng.choice([3, 4])
        tr = set()
        for _ in range(rng.randint(3, 2 * nn)):
            a, b = rng.randint(1, nn), rng.randint(1, nn)
            if a != b:
                tr.add((a, b, rng.randint(0, tm)))
        if tr:
            jobs.append((rng.randrange(1 << 30), sorted(tr), "int", "str", "quick", list(range(1, nn + 1)), rng.choice(["mixed", "one"]), True))
    # late shortcuts: a pair that meets directly only after it was already connected through others (the path types give
    # different distances); every path type in the sliding comparison
    for _ in range(12 if tier == "quick" else 200):
        nn = rng.choice([4, 5])
        perm = rng.sample(range(1, nn + 1), nn)
        a, b, c = perm[0], perm[1], perm[2]
        tr = {(a, b, 1), (b, a, 1), (b, c, 2), (c, b, 2), (a, c, 4), (c, a, 4)}
        for _ in range(rng.randint(2, 5)):
            x, y = rng.sample(range(1, nn + 1), 2)
            t = rng.randint(0, 6)
            tr |= {(x, y, t), (y, x, t)}
        jobs.append((rng.randrange(1 << 30), sorted(tr), "int", "str", "slide", list(range(1, nn + 1))))
    # 4 nodes, every pair present at no or exactly one instant of 0..3 (15,625 graphs): one-label oracle
    graphs4 = [tr for (d, tr) in _graphs(chk, "MC_paths_sparse4_gen.cfg" if tier == "quick" else "MC_paths_sparse4.cfg") if tr]
    if tier == "quick":
        graphs4 = rng.sample(graphs4, 1800)
    for tr in graphs4:
        jobs.append((rng.randrange(1 << 30), tr, "int", "str", tier, [1, 2, 3, 4], "one"))
    chk.run_jobs(job_conf, jobs, "conf", chunk=512)
    chk.assumptions = [
        "TLC, the CommunityModules and the JSON bridge are correct",
        "scores are logged scaled by 10^6 and rounded; two scores agree when they differ by at most 2 units",
        "the numeric value of a score in general is not recomputed (the statement does not fix it): only None-ness, key sets, range, the "
        "two invariances, the one-label value and the sliding/pointwise agreement are judged",
        "graphs without self-loops (reachability through a root self-loop is known finding KF7 of C13); undirected and directed graphs",
    ]
    rule = ("each case is one labelled DynGraph (every graph of the TLC path domain(s), 120 / 1500 sampled, with a seeded label assignment over "
            "two values, plus seeded random graphs with 4-5 nodes) x sampled (start, delta, path type) with alphas {1, 2, 2.5}: "
            "delta_conformity on the graph, on its value-renamed, node-renamed and one-label variants, and sliding_delta_conformity "
            "against the pointwise calls at every snapshot id; non-trivial = window with at least one snapshot; distinct = distinct digests")
    return chk.finish(rule, exhaustive=False)
